package sim

import (
	"encoding/json"
	"fmt"
	"os"
	"path/filepath"
	"strconv"
	"testing"
)

func envInt(k string, def int) int {
	if v := os.Getenv(k); v != "" {
		n, err := strconv.Atoi(v)
		if err == nil {
			return n
		}
	}
	return def
}

func emit(tag string, v interface{}) {
	b, _ := json.Marshal(v)
	fmt.Printf("%s %s\n", tag, b)
}

// TestWorker is the entry point used by /verif/check. It is a no-op unless VERIF_MODE is set.
func TestWorker(t *testing.T) {
	mode := os.Getenv("VERIF_MODE")
	if mode == "" {
		t.Skip("VERIF_MODE not set")
	}
	seed := uint64(envInt("VERIF_SEED", 1))
	tier := os.Getenv("VERIF_TIER")
	if tier == "" {
		tier = "quick"
	}
	switch mode {
	case "info":
		out := map[string]interface{}{}
		for name, p := range profiles {
			level := p.Level
			if level == "" {
				level = "exploration"
			}
			out[name] = map[string]interface{}{"quick": p.Quick, "thorough": p.Thorough, "nonvacuous": p.NonVacuous, "rule": p.Rule, "level": level, "chunk": p.Chunk, "exhaustive": p.Exhaustive}
		}
		emit("INFO", out)
	case "batch", "determinism":
		p := profiles[os.Getenv("VERIF_PROFILE")]
		if p == nil {
			fmt.Println("ENGINE-ERROR unknown profile", os.Getenv("VERIF_PROFILE"))
			return
		}
		from, to := envInt("VERIF_FROM", 0), envInt("VERIF_TO", 1)
		dir := os.Getenv("VERIF_REPLAY_DIR")
		for i := from; i < to; i++ {
			fmt.Printf("START %d\n", i)
			if p.Multi != nil {
				res := p.Multi(t, p, seed, tier, i, dir)
				if mode == "determinism" {
					if res2 := p.Multi(t, p, seed, tier, i, ""); res2.LogHash != res.LogHash || res2.Calls != res.Calls {
						res.EngineErr = fmt.Sprintf("nondeterministic: %s/%d vs %s/%d", res.LogHash, res.Calls, res2.LogHash, res2.Calls)
					}
				}
				res.sim = nil
				emit("RUN", res)
				continue
			}
			rs := mixSeed(seed, p.Name, i)
			w := p.Gen(subRng(rs, "world"), tier, i)
			w.Profile = p.Name
			res := RunOne(t, p, rs, w, nil, false, mode == "determinism")
			res.Index = i
			if mode == "determinism" {
				w2 := p.Gen(subRng(rs, "world"), tier, i)
				w2.Profile = p.Name
				res2 := RunOne(t, p, rs, w2, nil, false, true)
				w3 := p.Gen(subRng(rs, "world"), tier, i)
				w3.Profile = p.Name
				res3 := RunOne(t, p, rs, w3, res.sim.Trace, true, true)
				if res3.Sig != res.Sig || len(res3.Violations) != len(res.Violations) {
					res.EngineErr = fmt.Sprintf("replay of the recorded trace diverges from the generating run: sig %s vs %s, violations %d vs %d", res.Sig, res3.Sig, len(res.Violations), len(res3.Violations))
				}
				if res2.LogHash != res.LogHash || res2.Sig != res.Sig {
					res.EngineErr = fmt.Sprintf("nondeterministic: %s/%s vs %s/%s", res.LogHash, res.Sig, res2.LogHash, res2.Sig)
					if os.Getenv("VERIF_DUMP") != "" {
						_ = os.WriteFile(filepath.Join(os.Getenv("VERIF_DUMP"), fmt.Sprintf("log-%d-a.txt", i)), []byte(joinLines(res.sim.Log)), 0o644)
						_ = os.WriteFile(filepath.Join(os.Getenv("VERIF_DUMP"), fmt.Sprintf("log-%d-b.txt", i)), []byte(joinLines(res2.sim.Log)), 0o644)
					}
				}
			}
			if dir != "" {
				seen := map[string]bool{}
				for vi := range res.Violations {
					v := res.Violations[vi]
					if (!decides(p, v) && os.Getenv("VERIF_ALL") == "") || seen[v.Prop+v.Monitor+v.Sig] {
						continue
					}
					seen[v.Prop+v.Monitor+v.Sig] = true
					rf := &ReplayFile{Property: v.Prop, Profile: p.Name, Seed: seed, Index: i, RunSeed: rs, Tier: tier, World: w, Trace: res.sim.Trace, UseTrace: true, Violation: &v}
					_ = writeJSON(filepath.Join(dir, fmt.Sprintf("%s-%s-%d-%d-%d.json", v.Prop, p.Name, seed, i, vi)), rf)
				}
			}
			if os.Getenv("VERIF_LOG") == "2" {
				for _, l := range res.sim.Log {
					fmt.Println("LOG", l)
				}
			}
			res.sim = nil
			emit("RUN", res)
		}
	case "replay":
		rf := &ReplayFile{}
		b, err := os.ReadFile(os.Getenv("VERIF_REPLAY"))
		if err != nil {
			fmt.Println("ENGINE-ERROR", err)
			return
		}
		if err := json.Unmarshal(b, rf); err != nil {
			fmt.Println("ENGINE-ERROR", err)
			return
		}
		p := profiles[rf.Profile]
		res := RunOne(t, p, rf.RunSeed, rf.World, rf.Trace, rf.UseTrace, os.Getenv("VERIF_LOG") != "")
		if p.Name == "C11" {
			c11Translate(res)
		}
		if os.Getenv("VERIF_LOG") != "" {
			for _, l := range res.sim.Log {
				fmt.Println("LOG", l)
			}
		}
		res.sim = nil
		emit("RUN", res)
	case "minimize":
		rf := &ReplayFile{}
		b, err := os.ReadFile(os.Getenv("VERIF_REPLAY"))
		if err != nil {
			fmt.Println("ENGINE-ERROR", err)
			return
		}
		if err := json.Unmarshal(b, rf); err != nil {
			fmt.Println("ENGINE-ERROR", err)
			return
		}
		out := Minimize(t, rf, envInt("VERIF_MIN_BUDGET", 400))
		if out == nil {
			fmt.Println("MINIMIZE-FAILED replay does not reproduce")
			return
		}
		if err := writeJSON(os.Getenv("VERIF_OUT"), out); err != nil {
			fmt.Println("ENGINE-ERROR", err)
			return
		}
		fmt.Printf("MINIMIZED %d -> %d decisions\n", out.OrigTraceLen, len(out.Trace))
	}
}

func joinLines(l []string) string {
	s := ""
	for _, x := range l {
		s += x + "\n"
	}
	return s
}
