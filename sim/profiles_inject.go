package sim

import (
	"k8s.io/apimachinery/pkg/util/intstr"
	"encoding/json"
	"fmt"
	"math/rand/v2"
	"strings"
	"testing/synctest"
	"time"

	corev1 "k8s.io/api/core/v1"
	metav1 "k8s.io/apimachinery/pkg/apis/meta/v1"
	"k8s.io/apimachinery/pkg/types"

	edsv1 "github.com/DataDog/extendeddaemonset/api/v1alpha1"
)

func synctestWait() { synctest.Wait() }

func edsv1ERSCond(t, status string, trans, upd time.Time) edsv1.ExtendedDaemonSetReplicaSetCondition {
	return edsv1.ExtendedDaemonSetReplicaSetCondition{Type: edsv1.ExtendedDaemonSetReplicaSetConditionType(t), Status: corev1.ConditionStatus(status), LastTransitionTime: metav1.NewTime(trans), LastUpdateTime: metav1.NewTime(upd)}
}

// ---------------------------------------------------------------------------------------
// C03: state injection — one sync of the active replica set over an assigned cluster.

var c03Kinds = []string{"none", "newReady", "newUnready", "oldReady", "oldUnready", "oldTerm", "stuck", "legacyReady", "legacyUnready"}

func genC03(r *rand.Rand, tier string, idx int) *World {
	w := &World{DefaultValidationMode: "auto", Extra: map[string]string{}}
	w.AffinityMode = chance(r, 0.5)
	maxN := 12
	if tier == "thorough" {
		maxN = 40
	}
	n := 1 + r.IntN(maxN)
	cordons := chance(r, 0.3)
	for i := 0; i < n; i++ {
		nd := &NodeDef{Name: nodeName(i)}
		if cordons && chance(r, 0.3) {
			// cordoned or under pressure: taints every daemon pod tolerates - the node stays targeted
			nd.Taints = []string{pick(r, "node.kubernetes.io/unschedulable:NoSchedule", "node.kubernetes.io/memory-pressure:NoSchedule", "node.kubernetes.io/not-ready:NoExecute")}
		}
		w.Nodes = append(w.Nodes, nd)
	}
	e := &EDSDef{NS: "ns1", Name: "foo", Initial: "A", Templates: map[string]*TemplateDef{"A": {Letter: "A"}, "B": {Letter: "B"}}}
	e.Strategy = StrategyDef{
		MaxUnavailable:      pick(r, "1", "2", "3", "10%", "25%", "50%", "100%", "", "0", "0%"),
		MaxPodSchedulerFail: pick(r, "", "0", "1", "2", "10%", "50%"),
		ReconcileFrequency:  "10s",
		SlowStartInterval:   pick(r, "1s", "1m"),
		SlowStartIncrease:   pick(r, "1", "5", "100%"),
	}
	legacy := chance(r, 0.3)
	if legacy {
		e.OldDS = pick(r, "legacy", "aaa-old") // sorting after / before the ExtendedDaemonSet's own pods
		if chance(r, 0.6) {
			w.Extra["legacySameLabels"] = "1"
		}
	}
	w.EDS = []*EDSDef{e}
	// weights: mostly old pods, a few of everything else
	var assign []string
	mix := pick(r, "mostly-old", "mixed", "mostly-new")
	for i := 0; i < n; i++ {
		var k string
		switch mix {
		case "mostly-old":
			k = pick(r, "oldReady", "oldReady", "oldReady", "oldUnready", "oldUnready", "none", "newReady", "oldTerm", "stuck", "newUnready", "oldFailed2", "newStuckReady")
		case "mixed":
			k = c03Kinds[r.IntN(7)]
			if chance(r, 0.15) {
				k = pick(r, "oldFailed", "oldFailed2", "newFailed", "newStuckReady", "oldStuckReady")
			}
		default:
			k = pick(r, "newReady", "newReady", "newReady", "oldReady", "oldUnready", "newUnready", "none", "oldTerm", "stuck")
		}
		if legacy && chance(r, 0.4) {
			k = pick(r, "legacyReady", "legacyUnready")
		}
		assign = append(assign, k)
	}
	if chance(r, 0.4) {
		// nodes the pods cannot run on (untolerated taint): listed, but not targeted - percentages
		// must not be resolved against them
		for i, k := 0, 1+r.IntN(4); i < k; i++ {
			w.Nodes = append(w.Nodes, &NodeDef{Name: nodeName(n + i), Taints: []string{"dedicated:NoSchedule"}})
			assign = append(assign, "none")
		}
	}
	b, _ := json.Marshal(assign)
	w.Extra["assign"] = string(b)
	w.Extra["rounds"] = pick(r, "0", "3", "3")
	w.Cfg = Config{Kubelet: true, MapOrder: pick(r, 0, 0, 0, 1, 2)}
	if idx%2 == 1 {
		w.Cfg.PReject = pick(r, 0.0, 0.05, 0.2)
		w.Cfg.PLost = pick(r, 0.0, 0.05)
	}
	return w
}

func bodyC03(s *Sim) {
	s.Setup()
	def := s.W.EDS[0]
	key := types.NamespacedName{Namespace: def.NS, Name: def.Name}
	if def.OldDS != "" {
		s.ensureLegacyDS(def)
	}
	s.bootstrap(def)
	if a := s.ersByLetter(def, "A"); a != nil {
		// give the first replica set a non-zero status so that it survives the switch
		s.RunTask(CtrlERS, types.NamespacedName{Namespace: a.Namespace, Name: a.Name})
	}
	s.userSetTemplate(def.NS, def.Name, "B")
	s.RunTask(CtrlEDS, key)
	s.RunTask(CtrlEDS, key)
	oldRS, newRS := s.ersByLetter(def, "A"), s.ersByLetter(def, "B")
	if oldRS == nil || newRS == nil {
		panic("c03: replica sets missing after bootstrap")
	}
	for _, p := range s.Store.Pods() {
		s.Store.Remove(objKey{KPod, p.Namespace, p.Name})
	}
	var assign []string
	_ = json.Unmarshal([]byte(s.W.Extra["assign"]), &assign)
	for i, n := range s.Store.Nodes() {
		switch assign[i] {
		case "none":
		case "newReady":
			s.injectPod(newRS, n, PodState{Kind: "ready"})
		case "newUnready":
			s.injectPod(newRS, n, PodState{Kind: "unready"})
		case "oldReady":
			s.injectPod(oldRS, n, PodState{Kind: "ready"})
		case "oldUnready":
			s.injectPod(oldRS, n, PodState{Kind: "unready"})
		case "oldTerm":
			s.injectPod(oldRS, n, PodState{Kind: "ready", Term: true})
		case "stuck":
			if s.W.AffinityMode && i%2 == 0 {
				s.injectPod(oldRS, n, PodState{Kind: "pending", Unsched: true, AgeSec: 15 * 60})
			} else {
				s.injectPod(oldRS, n, PodState{Kind: "unready", StuckTerm: true})
			}
		case "legacyReady":
			s.injectLegacyPod(def, n, PodState{Kind: "ready"})
		case "legacyUnready":
			s.injectPod(oldRS, n, PodState{Kind: "unready"})
		case "newStuckReady":
			// the kubelet died: the pod is Terminating past its grace period and still shows Ready
			s.injectPod(newRS, n, PodState{Kind: "ready", StuckTerm: true})
		case "oldStuckReady":
			s.injectPod(oldRS, n, PodState{Kind: "ready", StuckTerm: true})
		case "oldFailed":
			s.injectPod(oldRS, n, PodState{Kind: "failed"})
		case "oldFailed2":
			// an evicted pod and its evicted replacement: the deletion of the second one is held back
			// by the per-node back-off, so it stays the node's pod for this sync
			s.injectPod(oldRS, n, PodState{Kind: "failed", AgeSec: 600})
			s.injectPod(oldRS, n, PodState{Kind: "failed", AgeSec: 60})
		case "newFailed":
			s.injectPod(newRS, n, PodState{Kind: "failed"})
		}
	}
	s.phase = "body"
	s.faultyDrain = true
	s.Advance(11 * time.Second)
	rk := types.NamespacedName{Namespace: newRS.Namespace, Name: newRS.Name}
	s.RunTask(CtrlERS, rk)
	if s.W.Extra["rounds"] != "0" {
		for i := 0; i < 3; i++ {
			switch s.rngSched.IntN(3) {
			case 0:
				s.settleAll()
			case 1:
				// readiness flaps: the number of available up-to-date pods drops between two syncs
				for _, p := range s.Store.Pods() {
					if p.DeletionTimestamp != nil {
						if s.rngSched.IntN(2) == 0 {
							s.Store.Remove(objKey{KPod, p.Namespace, p.Name})
						}
						continue
					}
					if podReady(p) && s.rngSched.IntN(3) == 0 {
						setPodCond(p, corev1.PodReady, corev1.ConditionFalse, "ContainersNotReady", s.kubeletNow())
						s.Store.ForceUpdate(p)
					} else if !podReady(p) && s.rngSched.IntN(2) == 0 {
						s.kSettle(p)
					}
				}
			}
			s.Advance(11 * time.Second)
			s.RunTask(CtrlERS, rk)
		}
	}
	s.faultyDrain = false
}

func init() {
	register(&Profile{Name: "C03", Decide: []string{"C03"}, Quick: 6000, Thorough: 300000, Gen: genC03, Body: bodyC03,
		NonVacuous: []string{"C03.update-del"}, Chunk: 200,
		Rule: "State injection: 1-12 (thorough: 1-40) targeted nodes (plus, in 40% of the runs, 1-4 listed nodes the pods cannot run on), each assigned one of {no pod, up-to-date available/unavailable, outdated available/unavailable, outdated Terminating, stuck unscheduled >10 min or Terminating past grace, adopted old-DaemonSet pod}, maxUnavailable and maxPodSchedulerFailure over absolute and percent values, PRNG-chosen iteration order of the controller's per-node map, then one (or four) syncs of the active replica set through the real Reconcile with seeded interleaving of its parallel deletes and optional API faults."})
}

// ---------------------------------------------------------------------------------------
// C06: canary health — injected canary pods, previous conditions, threshold lattice.

type c06Pod struct {
	State PodState `json:"state"`
}

type c06Cond struct {
	Type     string `json:"type"`
	Status   string `json:"status"`
	TransAgo int    `json:"transAgoSec"`
	UpdAgo   int    `json:"updAgoSec"`
}

type c06Case struct {
	Pods      []c06Pod  `json:"pods"`
	Conds     []c06Cond `json:"conds"`
	ERSAgeSec int       `json:"ersAgeSec"`
	Ann       map[string]string `json:"ann,omitempty"`
	Storm     int       `json:"storm"` // extra syncs with kubelet restarts in between
	Stint     bool      `json:"stint,omitempty"` // the replica set was the canary before, was superseded for a while and is the canary again
}

func genC06(r *rand.Rand, tier string, idx int) *World {
	w := &World{DefaultValidationMode: "auto", Extra: map[string]string{}}
	w.AffinityMode = chance(r, 0.3)
	n := 3 + r.IntN(2)
	for i := 0; i < n; i++ {
		w.Nodes = append(w.Nodes, &NodeDef{Name: nodeName(i)})
	}
	apMax := pick(r, int32(0), 1, 2)
	afMax := apMax + pick(r, int32(0), 1, 3)
	can := &CanaryDef{
		Replicas: pick(r, "1", "2", "3"), Duration: "10m", NoRestartsDuration: pick(r, "", "5m"),
		AutoPauseEnabled: bptr(chance(r, 0.75)), AutoPauseMaxRestarts: i32(apMax), MaxSlowStartDuration: pick(r, "", "1m", "5m"),
		AutoFailEnabled: bptr(chance(r, 0.75)), AutoFailMaxRestarts: i32(afMax), MaxRestartsDuration: pick(r, "", "2m", "10m", "0s"), CanaryTimeout: pick(r, "", "", "11m", "20m"),
	}
	side := chance(r, 0.4)
	e := &EDSDef{NS: "ns1", Name: "foo", Initial: "A", Templates: map[string]*TemplateDef{"A": {Letter: "A", Side: side}, "B": {Letter: "B", Side: side}, "C": {Letter: "C", Side: side}}}
	e.Strategy = StrategyDef{ReconcileFrequency: "10s", Canary: can}
	w.EDS = []*EDSDef{e}
	cs := c06Case{ERSAgeSec: pick(r, 5, 60, 500, 655, 661, 665, 1195, 1201, 1300)}
	np := pick(r, 0, 1, 1, 1, 2, 2, 3)
	slow := map[string]int{"": 100, "1m": 60, "5m": 300}[can.MaxSlowStartDuration]
	for i := 0; i < np; i++ {
		ps := PodState{Kind: pick(r, "ready", "ready", "unready", "cannotstart", "cannotstart", "creating", "pending")}
		ps.Restarts = pick(r, int32(0), 0, apMax, apMax+1, afMax, afMax+1, apMax-1)
		if ps.Restarts < 0 {
			ps.Restarts = 0
		}
		ps.RestartAgoSec = pick(r, 5, 60, 121, 300, 601)
		ps.NoLastTerm = chance(r, 0.15) // the kubelet no longer reports the previous run of the container
		if ps.Kind == "cannotstart" {
			ps.Waiting = pick(r, "ImagePullBackOff", "ErrImagePull", "CreateContainerConfigError", "PostStartHookError", "PodInitializing", "CrashLoopBackOff")
			switch r.IntN(5) {
			case 0:
				// only a later container is stuck; the first one waits for an ordinary reason
				ps.FirstWaiting = pick(r, "ContainerCreating", "CrashLoopBackOff", "PodInitializing")
			case 1:
				// an init container is stuck, the others wait for it
				ps.InitWaiting = pick(r, "ImagePullBackOff", "CreateContainerConfigError", "PodInitializing")
			}
		}
		if side && chance(r, 0.6) {
			// the less restarted container restarted more recently (or the other way round)
			ps.SideRestarts = pick(r, int32(1), 1, apMax+1)
			ps.SideRestartAgoSec = pick(r, 3, 20, 200, 900)
		}
		if chance(r, 0.2) {
			// only the init container restarted
			ps.InitRestarts = pick(r, int32(1), apMax+1, afMax+1)
			ps.InitRestartAgoSec = pick(r, 5, 60, 300)
		}
		ps.StartAgoSec = pick(r, slow-3, slow-1, slow, slow+1, slow+3, 2*slow)
		ps.AgeSec = ps.StartAgoSec + 10
		ps.Ephemeral = chance(r, 0.15)
		cs.Pods = append(cs.Pods, c06Pod{State: ps})
	}
	// "0s": fail as soon as two distinct restarts have been observed
	mrd := map[string]int{"": 200, "2m": 120, "10m": 600, "0s": 2}[can.MaxRestartsDuration]
	if chance(r, 0.6) {
		upd := pick(r, 5, 30, 100)
		cs.Conds = append(cs.Conds, c06Cond{Type: "PodRestarting", Status: "True", UpdAgo: upd, TransAgo: upd + pick(r, 0, mrd-2, mrd, mrd+1, mrd+3, 2*mrd)})
	}
	if chance(r, 0.7) {
		cs.Conds = append(cs.Conds, c06Cond{Type: "Canary", Status: pick(r, "True", "True", "True", "False"), TransAgo: pick(r, 5, 300, 655, 660, 662, 665, 1198, 1203, 1500)})
	}
	if chance(r, 0.4) {
		cs.Conds = append(cs.Conds, c06Cond{Type: "Canary-Paused", Status: pick(r, "True", "False"), TransAgo: 30})
	}
	if chance(r, 0.25) {
		cs.Conds = append(cs.Conds, c06Cond{Type: "Canary-Failed", Status: pick(r, "True", "False"), TransAgo: 30})
	}
	cs.Ann = map[string]string{}
	switch r.IntN(6) {
	case 0:
		cs.Ann["canary-paused"] = "true"
	case 1:
		cs.Ann["canary-unpaused"] = "true"
	case 2:
		cs.Ann["canary-paused"] = "false"
		cs.Ann["canary-unpaused"] = "true"
	case 3:
		cs.Ann["canary-paused"] = "true"
		cs.Ann["canary-unpaused"] = "false"
	}
	cs.Storm = pick(r, 0, 0, 2, 4)
	cs.Stint = can.CanaryTimeout != "" && chance(r, 0.3)
	b, _ := json.Marshal(cs)
	w.Extra["case"] = string(b)
	w.Cfg = Config{Kubelet: true, KubeletFaults: true, MapOrder: 0, Stall: chance(r, 0.3)}
	w.Cfg.PatchDenied = chance(r, 0.12) // the canary label cannot be written: the pods are evaluated all the same
	if idx%3 == 2 {
		w.Cfg.KubeletSkewSec = pick(r, 0, 1, -1, 2)
		w.Cfg.SkewSec = pick(r, 0, 1, -1)
	}
	return w
}

func bodyC06(s *Sim) {
	s.Setup()
	def := s.W.EDS[0]
	key := types.NamespacedName{Namespace: def.NS, Name: def.Name}
	var cs c06Case
	_ = json.Unmarshal([]byte(s.W.Extra["case"]), &cs)
	s.bootstrap(def)
	a := s.ersByLetter(def, "A")
	if a == nil {
		panic("c06: no replica set A")
	}
	for _, n := range s.Store.Nodes() {
		s.injectPod(a, n, PodState{Kind: "ready"})
	}
	s.RunTask(CtrlERS, types.NamespacedName{Namespace: a.Namespace, Name: a.Name})
	s.RunTask(CtrlEDS, key)
	s.userSetTemplate(def.NS, def.Name, "B")
	s.RunTask(CtrlEDS, key)
	// the canary replica set ages before the interesting sync (held by a pause so that
	// elapsed time does not promote it meanwhile)
	s.userAnnotate(def.NS, def.Name, edsv1.ExtendedDaemonSetCanaryPausedAnnotationKey, "true")
	if cs.Stint {
		// B is the canary for eight minutes, is superseded by C for four, and is the canary again:
		// canaryTimeout counts from the beginning of this second stint
		if b0 := s.ersByLetter(def, "B"); b0 != nil {
			bk := types.NamespacedName{Namespace: b0.Namespace, Name: b0.Name}
			s.RunTask(CtrlEDS, key)
			s.Advance(11 * time.Second)
			s.RunTask(CtrlERS, bk)
			s.Advance(8 * time.Minute)
			s.userSetTemplate(def.NS, def.Name, "C")
			s.RunTask(CtrlEDS, key)
			s.RunTask(CtrlEDS, key)
			s.Advance(11 * time.Second)
			s.RunTask(CtrlERS, bk)
			s.Advance(4 * time.Minute)
			s.userSetTemplate(def.NS, def.Name, "B")
			s.RunTask(CtrlEDS, key)
			s.RunTask(CtrlEDS, key)
			s.Stats.NonVacuous["C06.second-stint"]++
		}
	}
	s.Advance(time.Duration(cs.ERSAgeSec) * time.Second)
	s.RunTask(CtrlEDS, key)
	e := s.Store.GetEDS(def.NS, def.Name)
	b := s.ersByLetter(def, "B")
	if e == nil || b == nil || e.Status.Canary == nil {
		return // e.g. promoted by time: nothing to judge
	}
	now := s.Now()
	for i, cn := range e.Status.Canary.Nodes {
		if i >= len(cs.Pods) {
			break
		}
		n := s.Store.GetNode(cn)
		for _, p := range s.Store.Pods() {
			if podNode(p) == cn {
				s.Store.Remove(objKey{KPod, p.Namespace, p.Name})
			}
		}
		s.injectPod(b, n, cs.Pods[i].State)
	}
	b = s.Store.GetERS(b.Namespace, b.Name)
	for _, c := range cs.Conds {
		upd := c.UpdAgo
		if upd == 0 {
			upd = c.TransAgo
		}
		if cs.Stint && (c.Type == "Canary" || c.Type == "Canary-Paused" || c.Type == "Canary-Failed") {
			continue // these were written by the real syncs of the two stints
		}
		b.Status.Conditions = append(b.Status.Conditions, edsv1ERSCond(c.Type, c.Status, now.Add(-time.Duration(c.TransAgo)*time.Second), now.Add(-time.Duration(upd)*time.Second)))
	}
	// a condition cannot predate its object
	oldest := 0
	for _, c := range cs.Conds {
		if c.TransAgo > oldest {
			oldest = c.TransAgo
		}
	}
	if min := now.Add(-time.Duration(oldest+1) * time.Second); b.CreationTimestamp.Time.After(min) {
		b.CreationTimestamp = metav1.NewTime(min)
	}
	s.Store.ForceUpdate(b)
	s.userAnnotate(def.NS, def.Name, edsv1.ExtendedDaemonSetCanaryPausedAnnotationKey, "-")
	for k, v := range cs.Ann {
		s.userAnnotate(def.NS, def.Name, "extendeddaemonset.datadoghq.com/"+k, v)
	}
	s.phase = "body"
	rk := types.NamespacedName{Namespace: b.Namespace, Name: b.Name}
	sync := func() {
		t := s.StartReconcile(CtrlERS, rk)
		_ = t
		if s.W.Cfg.Stall && s.rngSched.IntN(2) == 0 {
			// stall the sync between two of its calls
			for i := 0; i < 3; i++ {
				synctestWait()
				p := s.canonicalPending()
				if len(p) == 0 {
					break
				}
				s.grant(p[0], "")
			}
			s.Advance(time.Duration(1+s.rngSched.IntN(90)) * time.Second)
			if s.rngSched.IntN(3) == 0 {
				// kubectl-eds canary fail lands in the middle of the sync
				s.RunCLIWhileParked("canary-fail", key)
			}
		}
		s.Drain()
	}
	sync()
	for i := 0; i < cs.Storm; i++ {
		for _, p := range s.Store.Pods() {
			if p.DeletionTimestamp != nil && s.rngEnv.IntN(2) == 0 {
				s.Store.Remove(objKey{KPod, p.Namespace, p.Name}) // finalised: the canary node is empty now
				continue
			}
			if letterOfPod(p) == "B" && p.DeletionTimestamp == nil && s.rngEnv.IntN(2) == 0 {
				switch s.rngEnv.IntN(5) {
				case 4:
					s.Store.Remove(objKey{KPod, p.Namespace, p.Name}) // evicted and collected: its successor never restarted
				case 0:
					if len(p.Status.ContainerStatuses) > 0 {
						s.kRestart(p, "Error")
					}
				case 1:
					s.kSettle(p)
				case 2:
					if p.Status.Phase != corev1.PodRunning && p.Spec.NodeName != "" {
						s.kCannotStart(p, pick(s.rngEnv, "ImagePullBackOff", "PodInitializing"))
					}
				}
			}
		}
		s.Advance(time.Duration(pick(s.rngEnv, 11, 30, 61, 125)) * time.Second)
		if s.rngEnv.IntN(3) == 0 {
			s.RunTask(CtrlEDS, key)
		}
		sync()
	}
}

func init() {
	register(&Profile{Name: "C06", Decide: []string{"C06"}, Quick: 6000, Thorough: 300000, Gen: genC06, Body: bodyC06,
		NonVacuous: []string{"C06.sync"}, Chunk: 200,
		Rule: "State injection: a canary in progress with 0-3 canary pods whose restart counts sit at, just below and just above both thresholds, waiting reasons inside/outside the cannot-start set, start times around maxSlowStartDuration; autoPause/autoFail enabled combinations and threshold pairs; previous Canary, PodRestarting, Canary-Paused, Canary-Failed conditions with ages around maxRestartsDuration and canaryTimeout; pause/unpause annotations; then one canary-role sync through the real Reconcile (optionally stalled between two calls, optionally with skewed kubelet/API clocks), followed by 0-4 further syncs with kubelet restart storms in between."})
}

// ---------------------------------------------------------------------------------------
// C15: canary node selection under node churn.

func genC15(r *rand.Rand, tier string, idx int) *World {
	w := &World{DefaultValidationMode: "auto", Extra: map[string]string{}}
	w.AffinityMode = chance(r, 0.3)
	maxN := 8
	if tier == "thorough" {
		maxN = 16
	}
	n := 2 + r.IntN(maxN-1)
	var restarts []int
	for i := 0; i < n; i++ {
		nd := &NodeDef{Name: nodeName(i), Labels: map[string]string{}}
		if chance(r, 0.8) {
			nd.Labels["zone"] = pick(r, "a", "b", "c")
		}
		if chance(r, 0.6) {
			nd.Labels["pool"] = pick(r, "x", "y")
		}
		if chance(r, 0.6) {
			nd.Labels["canary"] = "yes"
		}
		if chance(r, 0.15) {
			nd.Taints = []string{pick(r, "dedicated:NoSchedule", "evict:NoExecute", "soft:PreferNoSchedule", "node.kubernetes.io/unschedulable:NoSchedule")}
		}
		w.Nodes = append(w.Nodes, nd)
		restarts = append(restarts, pick(r, 0, 0, 0, 1, 2, 5))
	}
	b, _ := json.Marshal(restarts)
	w.Extra["restarts"] = string(b)
	if chance(r, 0.3) {
		w.Extra["termRestarted"] = "1"
	}
	if chance(r, 0.2) {
		w.Extra["overlap"] = "1"
	}
	if chance(r, 0.25) {
		w.Extra["secondTemplate"] = "1"
	}
	can := &CanaryDef{Replicas: pick(r, "1", "2", "3", "4", "25%", "50%", "100%"), Duration: "6h"}
	switch r.IntN(5) {
	case 0, 1:
		can.NodeSelector = map[string]string{"canary": "yes"}
	case 2:
		can.NodeSelectorExpr = []string{pick(r, "canary Exists", "canary DoesNotExist", "zone In a,b", "zone NotIn c", "pool DoesNotExist")}
		if chance(r, 0.3) {
			can.NodeSelector = map[string]string{"pool": "x"}
		}
	}
	switch r.IntN(4) {
	case 0:
		can.AntiAffinityKeys = []string{"zone"}
	case 1:
		can.AntiAffinityKeys = []string{"zone", "pool"}
	}
	tpl := &TemplateDef{Letter: "A"}
	if chance(r, 0.3) {
		tpl.Tolerate = []string{pick(r, "dedicated", "evict")}
	}
	if chance(r, 0.2) {
		tpl.NodeSelector = map[string]string{"pool": "x"}
	}
	tplB := tpl.withLetter("B")
	if chance(r, 0.5) {
		// the canaried update itself changes node eligibility
		switch r.IntN(3) {
		case 0:
			tplB.NodeSelector = map[string]string{"zone": pick(r, "a", "b")}
		case 1:
			tplB.Tolerate = nil
		case 2:
			tplB.AffinityKind = pick(r, "zoneA", "notPoolY", "hasZone", "hasZoneNotN1", "nameNotN1")
		}
	}
	e := &EDSDef{NS: "ns1", Name: "foo", Initial: "A", Templates: map[string]*TemplateDef{"A": tpl, "B": tplB, "C": tplB.withLetter("C")}}
	e.Strategy = StrategyDef{ReconcileFrequency: "10s", Canary: can, SlowStartIncrease: "100%", SlowStartInterval: "10s"}
	w.EDS = []*EDSDef{e}
	w.Extra["churn"] = fmt.Sprint(r.IntN(5))
	w.Cfg = Config{Kubelet: true, NodeChurn: true}
	if idx%3 == 2 {
		w.Cfg.PReject = pick(r, 0.02, 0.1)
	}
	return w
}

func bodyC15(s *Sim) {
	s.Setup()
	def := s.W.EDS[0]
	key := types.NamespacedName{Namespace: def.NS, Name: def.Name}
	var restarts []int
	_ = json.Unmarshal([]byte(s.W.Extra["restarts"]), &restarts)
	s.bootstrap(def)
	a := s.ersByLetter(def, "A")
	if a == nil {
		panic("c15: no replica set A")
	}
	for i, n := range s.Store.Nodes() {
		if eligible(n, def.Templates["A"]) {
			ps := PodState{Kind: "ready", Restarts: int32(restarts[i])}
			if s.W.Extra["termRestarted"] == "1" && restarts[i] > 0 && i%2 == 0 {
				// the much-restarted pod was deleted a moment ago and is still terminating: its restarts
				// are part of its node's history all the same
				ps.Term = true
			}
			s.injectPod(a, n, ps)
		}
	}
	s.RunTask(CtrlERS, types.NamespacedName{Namespace: a.Namespace, Name: a.Name})
	s.RunTask(CtrlEDS, key)
	s.userSetTemplate(def.NS, def.Name, "B")
	s.phase = "body"
	s.faultyDrain = true
	s.RunTask(CtrlEDS, key) // creates the canary replica set
	s.RunTask(CtrlEDS, key) // selects the canary nodes
	churn := 0
	fmt.Sscan(s.W.Extra["churn"], &churn)
	for i := 0; i < churn; i++ {
		acts := s.adminActions()
		// bias towards the selected nodes
		e := s.Store.GetEDS(def.NS, def.Name)
		var biased []Action
		if e != nil && e.Status.Canary != nil {
			for _, a := range acts {
				for _, cn := range e.Status.Canary.Nodes {
					if strings.Contains(a.K, " "+cn+" ") || strings.HasSuffix(a.K, " "+cn) {
						biased = append(biased, a)
					}
				}
			}
		}
		pool := acts
		if len(biased) > 0 && s.rngEnv.IntN(3) != 0 {
			pool = biased
		}
		overlapping := false
		if s.W.Extra["overlap"] == "1" && i == 0 && len(s.inflight) == 0 {
			// two controller instances overlap on the ExtendedDaemonSet: the old one reads everything and is
			// about to write; the cluster changes ...
			overlapping = true
			s.StartReconcile(CtrlEDS, key)
			for k := 0; k < 1000; k++ {
				synctest.Wait()
				p := s.canonicalPending()
				if len(p) == 0 || p[0].IsWrite() {
					break
				}
				s.grant(p[0], "")
			}
		}
		if len(pool) > 0 {
			act := pool[s.rngEnv.IntN(len(pool))]
			s.logf("env %s", act.K)
			s.Stats.Env[strings.SplitN(act.K, " ", 2)[0]]++
			act.Do()
		}
		if s.rngEnv.IntN(2) == 0 {
			s.Advance(11 * time.Second)
			for _, r := range s.Store.ERSs() {
				if overlapping {
					s.RunTaskWhileParked(CtrlERS, types.NamespacedName{Namespace: r.Namespace, Name: r.Name})
				} else {
					s.RunTask(CtrlERS, types.NamespacedName{Namespace: r.Namespace, Name: r.Name})
				}
			}
			s.settleAll()
		}
		if overlapping {
			// ... a fresh instance takes over and reconciles what has changed (it may re-select); then the
			// old instance goes on with what it had read
			s.Zombie()
			s.RunTaskWhileParked(CtrlEDS, key)
			s.Drain()
			s.Stats.NonVacuous["C15.overlapping-instances"]++
		}
		if e := s.Store.GetEDS(def.NS, def.Name); e != nil && e.Spec.Strategy.Canary != nil && e.Spec.Strategy.Canary.Replicas != nil && e.Spec.Strategy.Canary.Replicas.Type == intstr.Int && s.rngEnv.IntN(3) == 0 {
			// the user asks for one more canary node: the selection runs again; or for one less:
			// the nodes already selected stay, none may be added
			n := e.Spec.Strategy.Canary.Replicas.IntValue() + 1
			if n > 2 && s.rngEnv.IntN(3) == 0 {
				n -= 2
			}
			e.Spec.Strategy.Canary.Replicas = intOrStr(fmt.Sprint(n))
			s.Store.ForceUpdate(e)
			s.logf("env user.canary-replicas %d", n)
		}
		if i == 1 && s.W.Extra["secondTemplate"] == "1" {
			// the template changes a second time while the canary runs: another replica set takes the
			// canary over, on the nodes already selected (restarts since then do not matter for those)
			if e := s.Store.GetEDS(def.NS, def.Name); e != nil && e.Status.Canary != nil {
				for _, n := range e.Status.Canary.Nodes {
					for _, p := range s.Store.Pods() {
						if podNode(p) == n && isDaemonPod(p, def.NS, def.Name) && !terminating(p) && len(p.Status.ContainerStatuses) > 0 {
							s.kRestart(p, "Error")
							if pp := s.Store.GetPod(p.Namespace, p.Name); pp != nil {
								s.kSettle(pp)
							}
						}
					}
				}
				s.userSetTemplate(def.NS, def.Name, "C")
				s.logf("env user.template C")
				s.RunTask(CtrlEDS, key) // creates the replica set of C
				s.Stats.NonVacuous["C15.template-changed-during-canary"]++
			}
		}
		s.RunTask(CtrlEDS, key)
	}
	s.faultyDrain = false
}

func init() {
	register(&Profile{Name: "C15", Decide: []string{"C15"}, Quick: 5000, Thorough: 250000, Gen: genC15, Body: bodyC15,
		NonVacuous: []string{"C15.selection"}, Chunk: 200,
		Rule: "Node populations of 2-8 (thorough: 2-16) nodes with zone/pool/canary labels, taints and a per-node restart history of the running daemon pods; canary replicas as number or percent, optional canary node selector, 0-2 anti-affinity keys; the canary is started through the real reconciler (fresh selection), then 0-4 rounds of node deletion, relabelling or tainting biased onto the selected nodes, each followed by replica-set syncs and an ExtendedDaemonSet reconcile whose status is judged; API rejects injected in a third of the runs."})
}

// ---------------------------------------------------------------------------------------
// C17: race-detector build, parallel batches released together, none/some/all failing.

func genC17(r *rand.Rand, tier string, idx int) *World {
	w := &World{DefaultValidationMode: "auto", Extra: map[string]string{}}
	w.AffinityMode = chance(r, 0.5)
	n := pick(r, 2, 3, 5, 8, 16, 33, 64)
	if tier == "quick" && n > 33 {
		n = 33
	}
	nTaint := 0
	for i := 0; i < n; i++ {
		nd := &NodeDef{Name: nodeName(i)}
		if chance(r, 0.25) {
			nd.Taints = []string{"dedicated:NoSchedule"} // ineligible: pods injected here are clean-up work
			nTaint++
		}
		if idx%2 == 1 {
			// selected by the setting, and carrying an override annotation for the same container
			nd.Labels = map[string]string{"zone": "a"}
			if chance(r, 0.7) {
				nd.Annotations = map[string]string{fmt.Sprintf(edsv1.ExtendedDaemonSetRessourceNodeAnnotationKey, "ns1", "foo", "main"): `{"limits":{"cpu":"2"},"requests":{"cpu":"400m"}}`}
			}
		}
		w.Nodes = append(w.Nodes, nd)
	}
	tplKind := pick(r, "", "", "hasZone-or-not", "preferred-only")
	e := &EDSDef{NS: "ns1", Name: "foo", Initial: "A", Templates: map[string]*TemplateDef{"A": {Letter: "A", AffinityKind: tplKind}, "B": {Letter: "B", AffinityKind: tplKind}}}
	e.Strategy = StrategyDef{MaxUnavailable: pick(r, "100%", "50%", "3"), SlowStartIncrease: "100%", SlowStartInterval: "10s", ReconcileFrequency: "10s"}
	if chance(r, 0.4) {
		e.Strategy.Canary = &CanaryDef{Replicas: pick(r, "1", "3"), Duration: "10m"}
	}
	w.EDS = []*EDSDef{e}
	w.Extra["batchFail"] = []string{"none", "some", "all", "some", "first-batch"}[idx%5]
	w.Extra["c17"] = "1"
	w.Cfg = Config{ChaosSteps: pick(r, 30, 80), Kubelet: true, KubeletFaults: chance(r, 0.3), CLI: true, TemplateEdits: true, Stall: false, QuiesceRounds: 3, ERSTouch: chance(r, 0.5)}
	w.Settings = []*SettingDef{{NS: "ns1", Name: "set0", Ref: "foo", Selector: map[string]string{"zone": "a"}, Container: "main", Cpu: "500m", AgeSec: 10}}
	return w
}

func bodyC17(s *Sim) {
	s.batchMode = true
	s.Setup()
	def := s.W.EDS[0]
	key := types.NamespacedName{Namespace: def.NS, Name: def.Name}
	s.bootstrap(def)
	a := s.ersByLetter(def, "A")
	if a == nil {
		panic("c17: no replica set A")
	}
	rk := types.NamespacedName{Namespace: a.Namespace, Name: a.Name}
	for _, st := range s.Store.Settings() {
		s.RunTask(CtrlSetting, types.NamespacedName{Namespace: st.Namespace, Name: st.Name}) // valid before the first sync
	}
	// a sync with many simultaneous creations
	s.RunTask(CtrlERS, rk)
	s.settleAll()
	s.RunTask(CtrlEDS, key)
	// inject clean-up work: pods on ineligible nodes and duplicates
	for i, n := range s.Store.Nodes() {
		if len(n.Spec.Taints) > 0 {
			s.injectPod(a, n, PodState{Kind: "ready"})
		} else if i%3 == 0 {
			s.injectPod(a, n, PodState{Kind: "ready", AgeSec: 10, Suffix: "-dup"})
		}
	}
	s.Advance(11 * time.Second)
	if s.W.Cfg.ERSTouch {
		// somebody annotates the replica set between the sync's read of it and its status write
		s.StartReconcile(CtrlERS, rk)
		synctestWait()
		if p := s.canonicalPending(); len(p) > 0 {
			s.grant(p[0], "")
		}
		if r := s.Store.GetERS(rk.Namespace, rk.Name); r != nil {
			if r.Annotations == nil {
				r.Annotations = map[string]string{}
			}
			r.Annotations["touched"] = "mid-sync"
			s.Store.ForceUpdate(r)
		}
		s.Drain()
	} else {
		s.RunTask(CtrlERS, rk)
	}
	s.settleAll()
	// a template change: simultaneous update-deletions (and a canary in some worlds)
	s.userSetTemplate(def.NS, def.Name, "B")
	s.RunTask(CtrlEDS, key)
	s.RunTask(CtrlEDS, key)
	if e := s.Store.GetEDS(def.NS, def.Name); e != nil && e.Status.Canary != nil {
		// clean-up work for the canary role: duplicates on the canary nodes
		if b := s.ersByLetter(def, "B"); b != nil {
			// first a clean-up that succeeds (PodsCleanupDone becomes true), then the ones that may fail
			mode := s.W.Extra["batchFail"]
			s.W.Extra["batchFail"] = "none"
			if n := s.Store.GetNode(e.Status.Canary.Nodes[0]); n != nil {
				s.injectPod(b, n, PodState{Kind: "ready", AgeSec: 30, Suffix: "-d0"})
				s.injectPod(b, n, PodState{Kind: "ready", AgeSec: 25, Suffix: "-d00"})
			}
			s.Advance(11 * time.Second)
			s.RunTask(CtrlERS, types.NamespacedName{Namespace: b.Namespace, Name: b.Name})
			s.W.Extra["batchFail"] = mode
			for _, cn := range e.Status.Canary.Nodes {
				if n := s.Store.GetNode(cn); n != nil {
					s.injectPod(b, n, PodState{Kind: "ready", AgeSec: 20, Suffix: "-d1"})
					s.injectPod(b, n, PodState{Kind: "ready", AgeSec: 10, Suffix: "-d2"})
				}
			}
			s.Advance(11 * time.Second)
			bk := types.NamespacedName{Namespace: b.Namespace, Name: b.Name}
			s.RunTask(CtrlERS, bk)
			if hash64(fmt.Sprint(s.Seed), "c17promote")%2 == 0 {
				// the canary is validated while its nodes carry surplus pods again: the first sync in the
				// active role removes the canary labels and has clean-up deletions in the same sync
				s.settleAll()
				s.userAnnotate(def.NS, def.Name, edsv1.ExtendedDaemonSetCanaryValidAnnotationKey, b.Name)
				for _, cn := range e.Status.Canary.Nodes {
					if n := s.Store.GetNode(cn); n != nil {
						s.injectPod(b, n, PodState{Kind: "ready", AgeSec: 5, Suffix: "-d3"})
					}
				}
				s.RunTask(CtrlEDS, key)
				s.Advance(11 * time.Second)
				s.RunTask(CtrlERS, bk)
				s.Stats.NonVacuous["C17.promoted-with-cleanup"]++
			}
		}
	}
	s.Chaos()
	s.Quiesce()
}

func init() {
	register(&Profile{Name: "C17", Decide: []string{"C17"}, Quick: 200, Thorough: 5000, Gen: genC17, Body: bodyC17,
		NonVacuous: []string{"C17.batch"}, Chunk: 4,
		Rule: "Harness and repository built with the race detector. Clusters of 2-64 nodes (a quarter tainted, so that injected pods there and injected duplicates are clean-up work); syncs with many simultaneous creations, clean-up deletions and update-deletions; every parked call of a parallel batch is executed and then released together so the goroutines really run concurrently; none / some / all of the batch's calls are made to fail, chosen by call identity; the four reconcilers, kubelet and kubectl-eds commands overlap in a seeded chaos phase. A race report (exit 66) is a violation; the error-reflection monitor runs on every sync whose status write succeeded."})
}

// ---------------------------------------------------------------------------------------
// C01 (state injection half): a multiset of 0-3 daemon pods per node.

type c01Pod struct {
	ERS   string   `json:"ers"` // old, new, legacy
	State PodState `json:"state"`
}

func genC01Inject(r *rand.Rand, tier string, idx int) *World {
	w := &World{DefaultValidationMode: "auto", Extra: map[string]string{"body": "c01inject"}}
	w.AffinityMode = chance(r, 0.5)
	maxN := 8
	if tier == "thorough" {
		maxN = 16
	}
	n := 1 + r.IntN(maxN)
	plain := pick(r, 0.4, 0.7)
	for i := 0; i < n; i++ {
		w.Nodes = append(w.Nodes, genNode(r, nodeName(i), plain))
	}
	tpl := genTemplate(r, "A", pick(r, 0.3, 0.7))
	e := &EDSDef{NS: "ns1", Name: "foo", Initial: "A", Templates: map[string]*TemplateDef{"A": tpl, "B": tpl.withLetter("B")}}
	if chance(r, 0.3) {
		e.Templates["B"] = genTemplate(r, "B", 0.5)
	}
	e.Strategy = StrategyDef{ReconcileFrequency: "10s", MaxUnavailable: pick(r, "1", "50%", "100%"), SlowStartIncrease: pick(r, "1", "100%"), SlowStartInterval: "10s"}
	canary := chance(r, 0.4)
	if canary {
		e.Strategy.Canary = &CanaryDef{Replicas: pick(r, "1", "2", "3", "3"), Duration: "6h"}
		if e.Strategy.Canary.Replicas == "3" {
			// the canary shrinks before its replica set is synced: one selected node becomes
			// unfit and the requested number is lowered
			w.Extra["shrink"] = pick(r, "0", "1", "2")
		}
	}
	if chance(r, 0.2) {
		e.OldDS = "legacy"
	}
	w.EDS = []*EDSDef{e}
	pods := map[string][]c01Pod{}
	for i := 0; i < n; i++ {
		k := pick(r, 0, 1, 1, 1, 2, 2, 3)
		for j := 0; j < k; j++ {
			p := c01Pod{ERS: pick(r, "old", "old", "new", "new", "new")}
			if e.OldDS != "" && chance(r, 0.3) {
				p.ERS = "legacy"
			}
			p.State = PodState{Kind: pick(r, "ready", "ready", "ready", "unready", "pending", "failed", "unknown", "creating", "succeeded"), AgeSec: pick(r, 30, 30, 60, 120, 700)}
			p.State.Term = chance(r, 0.15)
			p.State.Unsched = chance(r, 0.2)
			p.State.Suffix = fmt.Sprintf("-%d", j)
			pods[nodeName(i)] = append(pods[nodeName(i)], p)
		}
	}
	b, _ := json.Marshal(pods)
	w.Extra["pods"] = string(b)
	w.Extra["roles"] = pick(r, "new", "new,old", "old,new", "new,new")
	w.Cfg = Config{Kubelet: true, MapOrder: pick(r, 0, 0, 1, 2)}
	if idx%4 == 3 {
		w.Cfg.PReject, w.Cfg.PLost = pick(r, 0.05, 0.2), pick(r, 0.0, 0.05)
	}
	if canary && chance(r, 0.25) {
		w.Cfg.PatchDenied = true // the canary label cannot be written: everything else goes on
	}
	if canary && w.Extra["shrink"] == "" && chance(r, 0.3) {
		w.Extra["staleCanaryNode"] = pick(r, "tainted", "gone")
	}
	return w
}

func bodyC01Inject(s *Sim) {
	s.Setup()
	def := s.W.EDS[0]
	key := types.NamespacedName{Namespace: def.NS, Name: def.Name}
	if def.OldDS != "" {
		s.ensureLegacyDS(def)
	}
	s.bootstrap(def)
	if a := s.ersByLetter(def, "A"); a != nil {
		s.RunTask(CtrlERS, types.NamespacedName{Namespace: a.Namespace, Name: a.Name})
	}
	s.RunTask(CtrlEDS, key)
	s.userSetTemplate(def.NS, def.Name, "B")
	s.RunTask(CtrlEDS, key)
	s.RunTask(CtrlEDS, key)
	oldRS, newRS := s.ersByLetter(def, "A"), s.ersByLetter(def, "B")
	if oldRS == nil || newRS == nil {
		return
	}
	if sh := s.W.Extra["shrink"]; sh == "1" || sh == "2" {
		if e := s.Store.GetEDS(def.NS, def.Name); e != nil && e.Status.Canary != nil && len(e.Status.Canary.Nodes) >= 2 {
			idx := 0
			if sh == "2" {
				idx = len(e.Status.Canary.Nodes) - 2
			}
			if n := s.Store.GetNode(e.Status.Canary.Nodes[idx]); n != nil {
				n.Spec.Taints = append(n.Spec.Taints, corev1.Taint{Key: "shrunk", Effect: corev1.TaintEffectNoSchedule})
				s.Store.ForceUpdate(n)
			}
			e.Spec.Strategy.Canary.Replicas = intOrStr("2")
			s.Store.ForceUpdate(e)
			s.RunTask(CtrlEDS, key)
		}
	}
	if st := s.W.Extra["staleCanaryNode"]; st != "" {
		// a selected canary node stops being eligible, or leaves the cluster, and the replica sets are
		// synced before the ExtendedDaemonSet has re-selected: status.canary.nodes still names it
		if e := s.Store.GetEDS(def.NS, def.Name); e != nil && e.Status.Canary != nil && len(e.Status.Canary.Nodes) >= 1 {
			if n := s.Store.GetNode(e.Status.Canary.Nodes[len(e.Status.Canary.Nodes)-1]); n != nil {
				if st == "tainted" {
					n.Spec.Taints = append(n.Spec.Taints, corev1.Taint{Key: "shrunk", Effect: corev1.TaintEffectNoSchedule})
					s.Store.ForceUpdate(n)
				} else {
					s.Store.Remove(objKey{KNode, "", n.Name})
				}
				s.Stats.NonVacuous["C01.stale-canary-node"]++
			}
		}
	}
	for _, p := range s.Store.Pods() {
		s.Store.Remove(objKey{KPod, p.Namespace, p.Name})
	}
	var pods map[string][]c01Pod
	_ = json.Unmarshal([]byte(s.W.Extra["pods"]), &pods)
	for _, n := range s.Store.Nodes() {
		for _, p := range pods[n.Name] {
			switch p.ERS {
			case "old":
				s.injectPod(oldRS, n, p.State)
			case "new":
				s.injectPod(newRS, n, p.State)
			case "legacy":
				s.injectLegacyPod(def, n, p.State)
			}
		}
	}
	s.phase = "body"
	s.faultyDrain = true
	s.Advance(11 * time.Second)
	for _, role := range strings.Split(s.W.Extra["roles"], ",") {
		rs := newRS
		if role == "old" {
			rs = oldRS
		}
		s.RunTask(CtrlERS, types.NamespacedName{Namespace: rs.Namespace, Name: rs.Name})
		if s.rngSched.IntN(2) == 0 {
			s.Advance(11 * time.Second)
		}
	}
	s.faultyDrain = false
}

// ---------------------------------------------------------------------------------------
// C09 (state injection half): many nodes lacking a pod, request instants on slot edges.

func genC09Inject(r *rand.Rand, tier string, idx int) *World {
	w := &World{DefaultValidationMode: "auto", Extra: map[string]string{"body": "c09inject"}}
	w.AffinityMode = chance(r, 0.5)
	n := pick(r, 0, 1, 2, 5, 9, 17, 40)
	for i := 0; i < n; i++ {
		nd := &NodeDef{Name: nodeName(i)}
		if chance(r, 0.15) {
			nd.Taints = []string{"dedicated:NoSchedule"}
		}
		w.Nodes = append(w.Nodes, nd)
	}
	e := &EDSDef{NS: "ns1", Name: "foo", Initial: "A", Templates: map[string]*TemplateDef{"A": {Letter: "A"}, "B": {Letter: "B"}}}
	e.Strategy = StrategyDef{
		SlowStartInterval:  pick(r, "1s", "10s", "1m", "5m", "500ms", "1500ms", "2m30s"),
		SlowStartIncrease:  pick(r, "1", "2", "5", "10%", "50%", "1", "2", "5", "10%", "50%", "0", "0%"),
		ReconcileFrequency: pick(r, "1s", "10s", "1m"),
		MaxUnavailable:     pick(r, "1", "3", "25%", "100%", "0", "0%"),
	}
	e.Strategy.MaxParallel = i32(pick(r, int32(1), 2, 5, 250, 1, 2, 5, 250, 0))
	w.EDS = []*EDSDef{e}
	w.Extra["requests"] = fmt.Sprint(5 + r.IntN(16))
	if chance(r, 0.15) {
		w.Extra["ruPaused"] = "1"
	}
	if chance(r, 0.15) {
		w.Extra["overlap"] = "1"
	}
	w.Extra["update"] = pick(r, "0", "1", "2", "2", "3", "4")
	if chance(r, 0.12) && n >= 5 {
		// a replica set that has been active for weeks, slow start practically switched off by a large
		// increase or a tiny interval: only maxParallelPodCreation limits the creations (and the slow-start
		// product is far beyond 32 bits)
		w.Extra["ancient"] = pick(r, "30", "40", "26", "51")
		if chance(r, 0.5) {
			e.Strategy.SlowStartInterval, e.Strategy.SlowStartIncrease = "1s", "1000"
		} else {
			e.Strategy.SlowStartInterval, e.Strategy.SlowStartIncrease = "10ms", "100%"
		}
		e.Strategy.MaxParallel = i32(pick(r, int32(1), 2, 3))
	}
	if w.Extra["update"] == "4" {
		// a node the daemon does not target (stray pods there are clean-up work) and one that joins later
		w.Nodes = append(w.Nodes, &NodeDef{Name: nodeName(n), Taints: []string{"dedicated:NoSchedule"}})
		w.SpareNodes = append(w.SpareNodes, &NodeDef{Name: nodeName(n + 1)})
	}
	if w.Extra["update"] == "3" {
		e.Strategy.Canary = &CanaryDef{Replicas: pick(r, "1", "2"), ValidationMode: "manual"}
	}
	w.Cfg = Config{Kubelet: true, MapOrder: pick(r, 0, 1, 2), Stall: chance(r, 0.3)}
	if idx%3 == 2 {
		w.Cfg.PReject = pick(r, 0.02, 0.1)
		w.Cfg.SkewSec = pick(r, 0, 1, -1)
	}
	return w
}

func bodyC09Inject(s *Sim) {
	s.Setup()
	def := s.W.EDS[0]
	key := types.NamespacedName{Namespace: def.NS, Name: def.Name}
	s.bootstrap(def)
	s.phase = "body"
	s.faultyDrain = true
	reqs := 10
	fmt.Sscan(s.W.Extra["requests"], &reqs)
	r := subRng(s.Seed, "c09req")
	if s.W.Extra["overlap"] == "1" {
		// Two controller instances overlap: the old one has read its objects and is about to act when a
		// fresh instance takes over and runs a complete sync of the same replica set; then the old
		// one goes on with what it had read. Its status write must not go through.
		if e := s.Store.GetEDS(def.NS, def.Name); e != nil && e.Status.ActiveReplicaSet != "" {
			rk := types.NamespacedName{Namespace: def.NS, Name: e.Status.ActiveReplicaSet}
			s.Advance(s.maxFrequency() + time.Second)
			s.StartReconcile(CtrlERS, rk)
			for i := 0; i < 1000; i++ {
				synctest.Wait()
				p := s.canonicalPending()
				if len(p) == 0 || p[0].IsWrite() {
					break
				}
				s.grant(p[0], "")
			}
			s.Zombie()
			s.RunTaskWhileParked(CtrlERS, rk)
			s.Drain()
			s.Stats.NonVacuous["C09.overlapping-instances"]++
		}
	}
	if s.W.Extra["ruPaused"] == "1" {
		// the rolling update is paused from the start: pods are still created for nodes lacking one,
		// under the same slow start
		s.userAnnotate(def.NS, def.Name, edsv1.ExtendedDaemonSetRollingUpdatePausedAnnotationKey, "true")
		s.Stats.NonVacuous["C09.paused-creates"]++
	}
	for i := 0; i < reqs; i++ {
		if i == reqs/2 && s.W.Extra["update"] == "1" {
			s.userSetTemplate(def.NS, def.Name, "B")
			s.RunTask(CtrlEDS, key)
			s.RunTask(CtrlEDS, key)
		}
		if s.W.Extra["update"] == "2" && (i == reqs/3 || i == 2*reqs/3) {
			// A -> B -> A: the first replica set is re-activated after having been inactive
			l := "B"
			if i == 2*reqs/3 {
				l = "A"
			}
			s.userSetTemplate(def.NS, def.Name, l)
			s.RunTask(CtrlEDS, key)
			s.RunTask(CtrlEDS, key)
		}
		if i == reqs/2 && s.W.Extra["update"] == "4" {
			// syncs whose only pod operation is the clean-up of a stray pod, then a node joins and
			// the replica set is requested again at the same instant
			e := s.Store.GetEDS(def.NS, def.Name)
			var tn *corev1.Node
			for _, n := range s.Store.Nodes() {
				if len(n.Spec.Taints) > 0 {
					tn = n
				}
			}
			if a := s.Store.GetERS(def.NS, e.Status.ActiveReplicaSet); e != nil && a != nil && tn != nil {
				rk := types.NamespacedName{Namespace: a.Namespace, Name: a.Name}
				for k := 0; k < 3; k++ {
					s.settleAll()
					s.injectPod(a, tn, PodState{Kind: "ready"})
					s.Advance(s.maxFrequency() + time.Second)
					s.RunTask(CtrlERS, rk)
				}
				for _, nd := range s.W.SpareNodes {
					if s.Store.GetNode(nd.Name) == nil {
						_, _ = s.Store.CreateObj(nd.Object())
					}
				}
				s.RunTask(CtrlERS, rk)
				s.Stats.NonVacuous["C09.cleanup-only"]++
			}
		}
		if i == reqs/2 && s.W.Extra["update"] == "3" {
			// a canary whose replica set changes role right after one of its syncs: validated (or
			// failed) at once, the ExtendedDaemonSet reconciled, and the replica sets requested
			// again at the same instant
			s.userSetTemplate(def.NS, def.Name, "B")
			s.RunTask(CtrlEDS, key)
			s.RunTask(CtrlEDS, key)
			s.Advance(s.maxFrequency() + time.Second)
			for _, rs := range s.Store.ERSs() {
				s.RunTask(CtrlERS, types.NamespacedName{Namespace: rs.Namespace, Name: rs.Name})
			}
			s.RunCLI(pick(r, "canary-validate", "canary-validate", "canary-fail"), key)
			s.RunTask(CtrlEDS, key)
			for _, rs := range s.Store.ERSs() {
				s.RunTask(CtrlERS, types.NamespacedName{Namespace: rs.Namespace, Name: rs.Name})
			}
		}
		ds := s.advanceCandidates()
		s.Advance(ds[r.IntN(len(ds))])
		if days := 0; i == reqs-2 && s.W.Extra["ancient"] != "" {
			// weeks later a batch of pods is evicted and collected at once
			fmt.Sscan(s.W.Extra["ancient"], &days)
			s.Advance(time.Duration(days) * 24 * time.Hour)
			for _, p := range s.Store.Pods() {
				if r.IntN(4) != 0 {
					s.Store.Remove(objKey{KPod, p.Namespace, p.Name})
				}
			}
			s.Stats.NonVacuous["C09.long-lived-replicaset"]++
		}
		for _, rs := range s.Store.ERSs() {
			s.RunTask(CtrlERS, types.NamespacedName{Namespace: rs.Namespace, Name: rs.Name})
		}
		switch r.IntN(3) {
		case 0:
			s.settleAll()
		case 1:
			for _, p := range s.Store.Pods() {
				if r.IntN(2) == 0 {
					if p.DeletionTimestamp != nil {
						s.Store.Remove(objKey{KPod, p.Namespace, p.Name})
					} else {
						s.kSettle(p)
					}
				}
			}
		}
		if r.IntN(3) == 0 {
			s.RunTask(CtrlEDS, key)
		}
	}
	s.faultyDrain = false
}
