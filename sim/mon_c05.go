package sim

// C05 — a new version becomes active only when the promotion rule allows it.
// C07 M1 — the rollback after a failed canary. C15 — canary node selection.

import (
	"strings"
	"k8s.io/apimachinery/pkg/util/intstr"
	metav1 "k8s.io/apimachinery/pkg/apis/meta/v1"
	"encoding/json"
	"fmt"
	"sort"
	"time"

	corev1 "k8s.io/api/core/v1"
	apiequality "k8s.io/apimachinery/pkg/api/equality"
	"k8s.io/apimachinery/pkg/labels"

	edsv1 "github.com/DataDog/extendeddaemonset/api/v1alpha1"
)

type monC05 struct {
	baseMon
	maxNodes int
	elig     map[string][2]int // canary replica set -> range of eligible-node counts seen
	failedOnce map[string]uint64 // replica set (ns/name) -> sequence number of the write that made its Canary-Failed condition true during its current stint as canary
}

func (*monC05) Name() string { return "C05" }

func (m *monC05) band(s *Sim) time.Duration {
	return time.Second + absDur(time.Duration(s.W.Cfg.SkewSec)*time.Second) + absDur(time.Duration(s.W.Cfg.KubeletSkewSec)*time.Second)
}

func (m *monC05) PostCall(s *Sim, c *Call) {
	t := c.Task
	m.noteFailed(s, c)
	if c.Kind != KEDS || c.Verb != "updatestatus" || !c.Applied() || c.Pre == nil || c.Out == nil {
		return
	}
	if n := len(s.Store.Keys(KNode)); n > m.maxNodes {
		m.maxNodes = n
	}
	pre, post := &edsv1.ExtendedDaemonSet{}, &edsv1.ExtendedDaemonSet{}
	_ = json.Unmarshal(c.Pre, pre)
	_ = json.Unmarshal(c.Out, post)
	// C04 M2: never more canary nodes than the resolved replicas
	if post.Status.Canary != nil && post.Spec.Strategy.Canary != nil && post.Spec.Strategy.Canary.Replicas != nil {
		if want, ok := resolvePct(post.Spec.Strategy.Canary.Replicas, m.maxNodes, true); ok && want >= 0 {
			s.Stats.NonVacuous["C04.canary-status"]++
			// "never ADDS nodes beyond the resolved replicas": judged when the list grows
			had := map[string]bool{}
			if pre.Status.Canary != nil {
				for _, n := range pre.Status.Canary.Nodes {
					had[n] = true
				}
			}
			added := 0
			for _, n := range post.Status.Canary.Nodes {
				if !had[n] {
					added++
				}
			}
			if added > 0 && len(post.Status.Canary.Nodes) > want {
				s.Violate("C04", "M2", "", "%s added %d canary nodes for a total of %d, replicas %s resolves to at most %d", t.Label(), added, len(post.Status.Canary.Nodes), post.Spec.Strategy.Canary.Replicas.String(), want)
			}
		}
	}
	// C15 "nodes selected earlier that are still valid are kept" - also against a status written onto a
	// newer version of the object than the reconcile had read (the optimistic lock is what protects
	// the selection of a fresher reconcile from a stale one): judged on what the write replaced.
	if t.Ctrl == CtrlEDS && pre.Status.Canary != nil && post.Status.Canary != nil && pre.Status.Canary.ReplicaSet == post.Status.Canary.ReplicaSet && post.Spec.Strategy.Canary != nil {
		if v := t.View(); v.EDS != nil && v.EDS.ResourceVersion != pre.ResourceVersion {
			s.Stats.NonVacuous["C15.write-on-newer-version"]++
			kept := map[string]bool{}
			for _, n := range post.Status.Canary.Nodes {
				kept[n] = true
			}
			var sel labels.Selector = labels.Everything()
			if ns := post.Spec.Strategy.Canary.NodeSelector; ns != nil {
				if x, err := metav1.LabelSelectorAsSelector(ns); err == nil {
					sel = x
				}
			}
			up := s.Store.GetERS(post.Namespace, post.Status.Canary.ReplicaSet)
			for _, n := range pre.Status.Canary.Nodes {
				node := s.Store.GetNode(n)
				if kept[n] || node == nil || up == nil || !sel.Matches(labels.Set(node.Labels)) || !eligibleSpec(node, &up.Spec.Template.Spec) {
					continue
				}
				s.Violate("C15", "stable", "stale-write", "%s: its status write landed on a newer version of the object (read %s, replaced %s) and dropped canary node %s, which is still valid", t.Label(), v.EDS.ResourceVersion, pre.ResourceVersion, n)
			}
		}
	}
	x, y := pre.Status.ActiveReplicaSet, post.Status.ActiveReplicaSet
	if x == y || t.Ctrl != CtrlEDS {
		if x != y && t.Ctrl != CtrlEDS {
			s.Violate("C05", "writer", "", "%s changed status.activeReplicaSet from %q to %q", t.Label(), x, y)
		}
		return
	}
	if x == "" {
		return // first activation
	}
	v := t.View()
	if v.EDS == nil || !v.ERSRead {
		return
	}
	s.Stats.NonVacuous["C05.switch"]++
	own := ownERS(v)
	specLetter := letterOfTpl(&v.EDS.Spec.Template)
	Y := own[y]
	if Y == nil {
		for _, r := range v.ERSList {
			if r.Name == y {
				Y = r
			}
		}
		if Y == nil {
			s.Violate("C05", "target", "unknown", "%s switched the active replica set to %q which it never listed", t.Label(), y)
			return
		}
	}
	if letterOfTpl(&Y.Spec.Template) != specLetter {
		s.Violate("C05", "target", "not-uptodate", "%s switched the active replica set to %s (template %s) while spec.template is %s", t.Label(), y, letterOfTpl(&Y.Spec.Template), specLetter)
	}
	xExists := false
	for _, r := range v.ERSList {
		if r.Name == x {
			xExists = true
		}
	}
	if !xExists {
		s.Probe("c05.adopted-after-active-vanished")
		return
	}
	// The write must not land on a newer version than the one the decision was taken on
	// (optimistic concurrency is what makes a concurrent pause or template change safe): if it
	// did, the decision is judged against the object it was written onto.
	if mstr(meta(toMap(c.Pre)), "resourceVersion") != v.EDS.ResourceVersion {
		s.Probe("c05.switch-on-newer-version")
		if pre.Spec.Strategy.Canary != nil {
			if annTrue(pre.Annotations, edsv1.ExtendedDaemonSetCanaryPausedAnnotationKey) && pre.Annotations[edsv1.ExtendedDaemonSetCanaryValidAnnotationKey] != y {
				s.Violate("C05", "paused-promoted", "stale-write", "%s promoted %s with a status write that landed on a newer version of the object carrying canary-paused=true (decision taken on resourceVersion %s)", t.Label(), y, v.EDS.ResourceVersion)
				s.Violate("C08", "paused-promoted", "stale-write", "%s promoted %s with a status write that landed on a newer version of the object carrying canary-paused=true", t.Label(), y)
			}
			if letterOfTpl(&pre.Spec.Template) != letterOfTpl(&Y.Spec.Template) {
				s.Violate("C05", "target", "stale-write", "%s switched the active replica set to %s (template %s) with a status write that landed on a newer version whose spec.template is %s", t.Label(), y, letterOfTpl(&Y.Spec.Template), letterOfTpl(&pre.Spec.Template))
			}
		}
	}
	can := v.EDS.Spec.Strategy.Canary
	if can == nil {
		s.Probe("c05.no-canary-switch")
		return
	}
	ann := v.EDS.Annotations
	failed := ersCondTrue(&Y.Status, edsv1.ConditionTypeCanaryFailed)
	if markSeq, ok := m.failedOnce[Y.Namespace+"/"+Y.Name]; !failed && ok {
		// the mark was there during this canary, before this reconcile listed the replica sets, and has
		// been erased since (by whatever): a canary marked failed is not promoted by elapsed time
		var listSeq uint64
		for _, lc := range t.Calls {
			if lc.Verb == "list" && lc.Kind == KERS && lc.Err == nil {
				listSeq = lc.Seq
				break
			}
		}
		if markSeq < listSeq {
			failed = true
			s.Probe("c05.promotion-after-erased-failure")
		}
	}
	if val, ok := ann[edsv1.ExtendedDaemonSetCanaryValidAnnotationKey]; ok && val == y {
		s.Probe("c05.validated")
		return
	}
	// only elapsed time can justify it now
	if failed {
		s.Violate("C05", "failed-promoted", "", "%s promoted %s although its Canary-Failed condition is true and it was not validated", t.Label(), y)
		return
	}
	if can.ValidationMode == edsv1.ExtendedDaemonSetSpecStrategyCanaryValidationModeManual {
		s.Violate("C05", "manual-promoted", "", "%s promoted %s in manual validation mode without canary-valid", t.Label(), y)
		return
	}
	if can.Duration == nil {
		s.Violate("C05", "no-duration", "", "%s promoted %s by time although no duration is set", t.Label(), y)
		return
	}
	now := t.StartAt
	if age := now.Sub(Y.CreationTimestamp.Time); age < can.Duration.Duration-m.band(s) {
		s.Violate("C05", "duration", "", "%s promoted %s aged %v, duration %v", t.Label(), y, age, can.Duration.Duration)
	} else if age < can.Duration.Duration+2*time.Second {
		s.Probe("c05.promoted-at-boundary")
	}
	if can.NoRestartsDuration != nil {
		if rc := ersCond(&Y.Status, edsv1.ConditionTypePodRestarting); rc != nil {
			if since := now.Sub(rc.LastUpdateTime.Time); since < can.NoRestartsDuration.Duration-m.band(s) {
				s.Violate("C05", "no-restarts", "", "%s promoted %s %v after the last recorded restart, noRestartsDuration %v", t.Label(), y, since, can.NoRestartsDuration.Duration)
			}
		}
	}
	if annTrue(ann, edsv1.ExtendedDaemonSetCanaryPausedAnnotationKey) || ersCondTrue(&Y.Status, edsv1.ConditionTypeCanaryPaused) {
		s.Violate("C05", "paused-promoted", "", "%s promoted %s by elapsed time while the canary is paused", t.Label(), y)
		s.Violate("C08", "paused-promoted", "", "%s promoted %s by elapsed time while the canary is paused", t.Label(), y)
	}
	s.Probe("c05.promoted-by-time")
}

// TaskEnd: C07 M1 and C15 on successful EDS reconciles.
func (m *monC05) TaskEnd(s *Sim, t *Task) {
	if t.Ctrl != CtrlEDS {
		return
	}
	v := t.View()
	if !reachedStatusStage(v) || v.EDS.Spec.Strategy.Canary == nil {
		return
	}
	own := ownERS(v)
	if len(own) != len(v.ERSList) {
		return
	}
	specLetter := letterOfTpl(&v.EDS.Spec.Template)
	var up *edsv1.ExtendedDaemonSetReplicaSet
	for _, r := range v.ERSList { // list order: deterministic
		if own[r.Name] != nil && letterOfTpl(&r.Spec.Template) == specLetter {
			up = r
		}
	}
	act := own[v.EDS.Status.ActiveReplicaSet]
	st, wrote := finalEDSStatus(v)
	if t.Err != nil && t.Clean() && up != nil && strings.Contains(t.Err.Error(), "unable to select enough node") {
		m.checkUnreached(s, t, v, up)
	}
	// ---- C07 M1 ----
	if t.Successful() && up != nil && act != nil && up.Name != act.Name && ersCondTrue(&up.Status, edsv1.ConditionTypeCanaryFailed) {
		s.Stats.NonVacuous["C07.rollback"]++
		cur := s.Store.GetEDS(v.EDS.Namespace, v.EDS.Name)
		valid := v.EDS.Annotations[edsv1.ExtendedDaemonSetCanaryValidAnnotationKey] == up.Name
		if st.ActiveReplicaSet != act.Name && !valid {
			s.Violate("C07", "M1", "active-changed", "%s: canary %s failed, but the active replica set changed from %s to %s", t.Label(), up.Name, act.Name, st.ActiveReplicaSet)
		} else if !valid {
			if st.Canary != nil {
				s.Violate("C07", "M1", "canary-block", "%s: canary %s failed, but status.canary is still set", t.Label(), up.Name)
			}
			restored := false
			for _, c := range v.SpecWrites {
				if c.Applied() {
					o := &edsv1.ExtendedDaemonSet{}
					b, _ := json.Marshal(c.Obj)
					_ = json.Unmarshal(b, o)
					if apiequality.Semantic.DeepEqual(o.Spec.Template, act.Spec.Template) {
						restored = true
					}
				}
			}
			if !restored && cur != nil && letterOfTpl(&cur.Spec.Template) == specLetter {
				s.Violate("C07", "M1", "template", "%s: canary %s failed, but spec.template was not restored to the active template %s", t.Label(), up.Name, letterOfTpl(&act.Spec.Template))
			}
		}
	}
	// ---- C15 ----
	if st.Canary == nil || up == nil || !wrote && !t.Successful() {
		return
	}
	m.checkCanaryNodes(s, t, v, st, up)
}

func (m *monC05) checkCanaryNodes(s *Sim, t *Task, v *SyncView, st *edsv1.ExtendedDaemonSetStatus, up *edsv1.ExtendedDaemonSetReplicaSet) {
	can := v.EDS.Spec.Strategy.Canary
	nodes := st.Canary.Nodes
	seen := map[string]bool{}
	for _, n := range nodes {
		if seen[n] {
			s.Violate("C15", "distinct", "", "%s: canary node %s listed twice", t.Label(), n)
		}
		seen[n] = true
	}
	full := t.Successful()
	// a reconcile that lost its pod list to an injected fault and selected all the same is
	// judged on the preference rule alone
	blind := !full && t.Err == nil && !t.Crashed && t.Panic == nil && !t.Conflict && v.NodesRead && !v.PodsRead
	if !full && !blind {
		return
	}
	if full {
		s.Stats.NonVacuous["C15.selection"]++
	}
	// Validity. A reconcile that (re)selected is judged against the node list it read; one
	// that kept the list is judged stale only if the node was already invalid when the
	// reconcile began and still is when it ends (node churn is concurrent).
	nodeObjs := s.Store.Nodes()
	byName := map[string]*corev1.Node{}
	for _, n := range nodeObjs {
		byName[n.Name] = n
	}
	var sel labels.Selector = labels.Everything()
	if can.NodeSelector != nil {
		if x, err := metav1.LabelSelectorAsSelector(can.NodeSelector); err == nil {
			sel = x
		}
	}
	spec := &up.Spec.Template.Spec
	valid := func(n *corev1.Node) bool { return n != nil && sel.Matches(labels.Set(n.Labels)) && eligibleSpec(n, spec) }
	selectedNow := v.NodesRead // selectNodes ran in this reconcile
	prev := map[string]bool{}
	if v.EDS.Status.Canary != nil {
		for _, n := range v.EDS.Status.Canary.Nodes {
			prev[n] = true
		}
	}
	for _, n := range nodes {
		if !full {
			break
		}
		var bad bool
		var obj *corev1.Node
		sig := "stale"
		if selectedNow {
			obj = v.Nodes[n]
			bad = !valid(obj)
			if !prev[n] {
				sig = "fresh"
			}
		} else {
			obj = byName[n]
			bad = !valid(obj) && !valid(t.nodesAtStart[n])
		}
		if bad {
			why := "does not exist"
			if obj != nil {
				why = fmt.Sprintf("is not valid (labels %v, taints %v)", obj.Labels, obj.Spec.Taints)
			}
			s.Violate("C15", "valid", sig, "%s: canary node %s %s", t.Label(), n, why)
		}
	}
	if selectedNow && full {
		for n := range prev {
			if valid(v.Nodes[n]) && !seen[n] {
				s.Violate("C15", "stable", "", "%s: previously selected node %s is still valid but was dropped", t.Label(), n)
			}
		}
	}
	candObjs := nodeObjs
	if selectedNow {
		candObjs = v.NodeList
		byName = v.Nodes
	}
	if full {
		m.checkCanaryCount(s, t, v, st, up, nodeObjs, prev)
	}
	m.checkCanaryPreference(s, t, v, nodes, prev, seen, candObjs, byName, sel, valid)
}

func (m *monC05) checkCanaryCount(s *Sim, t *Task, v *SyncView, st *edsv1.ExtendedDaemonSetStatus, up *edsv1.ExtendedDaemonSetReplicaSet, nodeObjs []*corev1.Node, prev map[string]bool) {
	can := v.EDS.Spec.Strategy.Canary
	nodes := st.Canary.Nodes
	spec := &up.Spec.Template.Spec
	// count
	nEligible := 0
	for _, n := range nodeObjs {
		if eligibleSpec(n, spec) {
			nEligible++
		}
	}
	lo, hi := nEligible, nEligible
	// "the nodes the ExtendedDaemonSet targets" may be read with the active or with the new
	// template when their eligibility differs: accept both
	if act := ownERS(v)[st.ActiveReplicaSet]; act != nil {
		n := 0
		for _, nd := range nodeObjs {
			if eligibleSpec(nd, &act.Spec.Template.Spec) {
				n++
			}
		}
		if n < lo {
			lo = n
		}
		if n > hi {
			hi = n
		}
	}
	if m.elig == nil {
		m.elig = map[string][2]int{}
	}
	if r, ok := m.elig[up.Name]; ok {
		if r[0] < lo {
			lo = r[0]
		}
		if r[1] > hi {
			hi = r[1]
		}
	}
	m.elig[up.Name] = [2]int{lo, hi}
	wantLo, ok1 := resolvePct(can.Replicas, lo, true)
	wantHi, ok2 := resolvePct(can.Replicas, hi, true)
	if !ok1 || !ok2 || wantLo < 0 || wantHi < 0 {
		return
	}
	addedNow := 0
	for _, n := range nodes {
		if !prev[n] {
			addedNow++
		}
	}
	// "never exceeds it through the controller's own choice": judged when this reconcile added nodes
	if len(nodes) > wantHi && addedNow > 0 {
		s.Violate("C15", "count", "more", "%s: %d canary nodes, replicas %s resolves to %d", t.Label(), len(nodes), can.Replicas.String(), wantHi)
	}
	if can.Replicas.Type == 1 {
		// a percentage is resolved from what the controller knows: while the replica sets'
		// statuses (and so status.desired) still lag, a smaller selection is transient
		if byStatus, ok := resolvePct(can.Replicas, int(v.EDS.Status.Desired), true); ok && byStatus < wantLo {
			wantLo = byStatus
		}
	}
	if len(nodes) < wantLo {
		sig := "fewer"
		if can.Replicas.Type == 1 {
			sig = "fewer-percent"
		}
		s.Violate("C15", "count", sig, "%s: reconcile succeeded with %d canary nodes, replicas %s resolves to %d (eligible nodes %d..%d)", t.Label(), len(nodes), can.Replicas.String(), wantLo, lo, hi)
	}
}

// preference (for every node added by this reconcile) and spreading (for a selection from scratch)
func (m *monC05) checkCanaryPreference(s *Sim, t *Task, v *SyncView, nodes []string, prev, seen map[string]bool, candObjs []*corev1.Node, byName map[string]*corev1.Node, sel labels.Selector, valid func(*corev1.Node) bool) {
	can := v.EDS.Spec.Strategy.Canary
	var added []string
	for _, n := range nodes {
		if !prev[n] {
			added = append(added, n)
		}
	}
	if v.NodesRead && len(added) > 0 {
		restarts := map[string]int{}
		pods := v.Pods
		if !v.PodsRead {
			// the restart history could not be read and nodes were taken all the same: judged
			// against the pods that exist
			pods = s.Store.Pods()
			s.Stats.NonVacuous["C15.blind-selection"]++
		}
		for _, p := range pods {
			if isDaemonPod(p, v.EDS.Namespace, v.EDS.Name) {
				restarts[p.Spec.NodeName] += sumRestarts(p)
			}
		}
		if len(can.NodeAntiAffinityKeys) == 0 {
			worst := 0
			for _, n := range added {
				if restarts[n] > worst {
					worst = restarts[n]
				}
			}
			for _, n := range candObjs {
				if !seen[n.Name] && valid(n) && restarts[n.Name] < worst {
					s.Violate("C15", "prefer-least-restarts", "", "%s: took a node with %d restarts while valid node %s has %d", t.Label(), worst, n.Name, restarts[n.Name])
					// C12: is the choice explained by the restarts of pods that are not this ExtendedDaemonSet's
					// (read through a pod list that was not scoped to its namespace and name label)?
					alt := map[string]int{}
					foreign := false
					for _, p := range pods {
						alt[p.Spec.NodeName] += sumRestarts(p)
						foreign = foreign || (!isDaemonPod(p, v.EDS.Namespace, v.EDS.Name) && sumRestarts(p) > 0)
					}
					worstAlt, explained := 0, foreign && v.PodsRead
					for _, a := range added {
						if alt[a] > worstAlt {
							worstAlt = alt[a]
						}
					}
					for _, c := range candObjs {
						if !seen[c.Name] && valid(c) && alt[c.Name] < worstAlt {
							explained = false
						}
					}
					if explained {
						s.Violate("C12", "foreign-counted", "canary-nodes", "%s: the canary nodes %v are the least-restarted ones only if the restarts of pods that do not belong to %s/%s are counted too", t.Label(), added, v.EDS.Namespace, v.EDS.Name)
					}
					break
				}
			}
		} else if len(prev) == 0 {
			val := func(n *corev1.Node) string {
				x := ""
				for _, k := range can.NodeAntiAffinityKeys {
					x += n.Labels[k] + "$"
				}
				return x
			}
			present := map[string]bool{}
			for _, n := range candObjs {
				if sel.Matches(labels.Set(n.Labels)) {
					present[val(n)] = true
				}
			}
			cnt := map[string]int{}
			for _, n := range nodes {
				if byName[n] != nil {
					cnt[val(byName[n])]++
				}
			}
			quota := (len(nodes) + len(present) - 1) / len(present)
			var ks []string
			for k := range cnt {
				ks = append(ks, k)
			}
			sort.Strings(ks)
			for _, k := range ks {
				if cnt[k] > quota {
					s.Violate("C15", "spread", "", "%s: %d of %d canary nodes share anti-affinity value %q (quota %d over %d values)", t.Label(), cnt[k], len(nodes), k, quota, len(present))
				}
			}
		}
	}
}

// checkUnreached: the reconcile gave up on the canary node selection ("unable to select enough
// node") - legitimate only if fewer valid nodes exist than requested, the spread over
// nodeAntiAffinityKeys taken into account.
func (m *monC05) checkUnreached(s *Sim, t *Task, v *SyncView, up *edsv1.ExtendedDaemonSetReplicaSet) {
	can := v.EDS.Spec.Strategy.Canary
	if can.Replicas == nil || can.Replicas.Type != intstr.Int || !v.NodesRead {
		return // percentages: the resolved number depends on what the controller counts as targeted
	}
	want := can.Replicas.IntValue()
	var sel labels.Selector = labels.Everything()
	if can.NodeSelector != nil {
		x, err := metav1.LabelSelectorAsSelector(can.NodeSelector)
		if err != nil {
			return
		}
		sel = x
	}
	spec := &up.Spec.Template.Spec
	prev := map[string]bool{}
	if v.EDS.Status.Canary != nil {
		for _, n := range v.EDS.Status.Canary.Nodes {
			prev[n] = true
		}
	}
	val := func(n *corev1.Node) string {
		x := ""
		for _, k := range can.NodeAntiAffinityKeys {
			x += n.Labels[k] + "$"
		}
		return x
	}
	values := map[string]bool{}
	kept := map[string]int{}
	free := map[string]int{}
	nKept := 0
	for _, n := range v.NodeList {
		if !sel.Matches(labels.Set(n.Labels)) {
			continue
		}
		values[val(n)] = true
		if !eligibleSpec(n, spec) {
			continue
		}
		if prev[n.Name] {
			kept[val(n)]++
			nKept++
		} else {
			free[val(n)]++
		}
	}
	feasible := nKept
	if len(can.NodeAntiAffinityKeys) == 0 {
		for _, c := range free {
			feasible += c
		}
	} else if len(values) > 0 {
		quota := (want + len(values) - 1) / len(values)
		for _, k := range sortedKeys(free) {
			room := quota - kept[k]
			if room < 0 {
				room = 0
			}
			if free[k] < room {
				room = free[k]
			}
			feasible += room
		}
	}
	s.Stats.NonVacuous["C15.gave-up"]++
	if feasible >= want {
		s.Violate("C15", "count", "unreached", "%s reports %q although %d valid nodes can be selected within the spread quota (replicas %d, %d kept)", t.Label(), t.Err.Error(), feasible, want, nKept)
	}
}

// noteFailed remembers that a replica set carried Canary-Failed=True while it was the canary; the
// memory ends when one of its syncs in another role is recorded (that is where the condition is
// legitimately reset).
func (m *monC05) noteFailed(s *Sim, c *Call) {
	if c.Kind != KERS || !c.Applied() || c.Out == nil || (c.Verb != "updatestatus" && c.Verb != "patchstatus" && c.Verb != "update") {
		return
	}
	post := &edsv1.ExtendedDaemonSetReplicaSet{}
	_ = json.Unmarshal(c.Out, post)
	if m.failedOnce == nil {
		m.failedOnce = map[string]uint64{}
	}
	k := post.Namespace + "/" + post.Name
	if ersCondTrue(&post.Status, edsv1.ConditionTypeCanaryFailed) {
		if _, ok := m.failedOnce[k]; !ok {
			m.failedOnce[k] = c.Seq
		}
		return
	}
	if c.Task.Ctrl == CtrlERS {
		if v := c.Task.View(); v.EDS != nil && v.ERS != nil && v.Role() != "canary" {
			delete(m.failedOnce, k)
		}
	}
}
