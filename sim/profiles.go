package sim

import (
	metav1 "k8s.io/apimachinery/pkg/apis/meta/v1"
	"fmt"
	"math/rand/v2"
	"strings"
	"time"

	"k8s.io/apimachinery/pkg/api/resource"

	corev1 "k8s.io/api/core/v1"
	"k8s.io/apimachinery/pkg/types"

	edsv1 "github.com/DataDog/extendeddaemonset/api/v1alpha1"
)

type histOpts struct {
	maxNodes    int
	pCanary     float64
	fancy       []float64 // template fanciness levels to draw from
	faults      bool      // this is the fault sub-batch
	sane        bool      // C02: documented constraints, pause/freeze cleared before quiesce
	c02         bool
	twoEDS      bool
	pctReplicas bool
	overrides   bool
	settings    bool
	migration   bool
	neverReady  bool // in some worlds the pods of template A never become Ready
	someOverrides bool // node override annotations (also malformed ones) in a third of the worlds
	stratEdits  bool // user edits of canary replicas / strategy although not a convergence profile
}

func genStrategy(r *rand.Rand, o histOpts, canary bool, defMode string) StrategyDef {
	st := StrategyDef{
		MaxUnavailable:     pick(r, "", "1", "2", "3", "50%", "100%", "25%"),
		MaxPodSchedulerFail: pick(r, "", "", "1", "50%"),
		SlowStartInterval:  pick(r, "1s", "10s", "1m", "1m", "", "1500ms"),
		SlowStartIncrease:  pick(r, "", "1", "2", "5", "50%"),
		ReconcileFrequency: pick(r, "", "1s", "10s", "10s", "1m"),
	}
	if chance(r, 0.7) {
		st.MaxParallel = i32(pick(r, int32(1), 2, 5, 250))
	}
	if canary {
		c := &CanaryDef{
			Replicas:       pick(r, "", "1", "2", "3"),
			ValidationMode: pick(r, "", "", "auto", "manual"),
		}
		if o.pctReplicas && chance(r, 0.3) {
			c.Replicas = pick(r, "50%", "25%", "100%")
		}
		mode := c.ValidationMode
		if mode == "" {
			mode = defMode
		}
		if mode != "manual" {
			c.Duration = pick(r, "", "1m", "3m", "10m")
			c.NoRestartsDuration = pick(r, "", "", "0s", "1m", "5m")
		}
		if chance(r, 0.3) {
			c.NodeSelector = map[string]string{"canary": "yes"}
		}
		if chance(r, 0.25) {
			c.AntiAffinityKeys = []string{pick(r, "zone", "pool")}
		}
		if chance(r, 0.5) {
			c.AutoPauseEnabled = bptr(chance(r, 0.7))
			c.AutoPauseMaxRestarts = i32(pick(r, int32(0), 1, 2))
			c.MaxSlowStartDuration = pick(r, "", "", "30s", "2m")
		}
		if chance(r, 0.5) {
			c.AutoFailEnabled = bptr(chance(r, 0.7))
			c.AutoFailMaxRestarts = i32(pick(r, int32(2), 3, 5))
			c.MaxRestartsDuration = pick(r, "", "", "1m", "5m")
			if mode != "manual" {
				c.CanaryTimeout = pick(r, "", "", "15m", "30m")
			}
		}
		st.Canary = c
	}
	return st
}

func genHistory(r *rand.Rand, tier string, o histOpts) *World {
	w := &World{DefaultValidationMode: "auto", Extra: map[string]string{}}
	if chance(r, 0.2) {
		w.DefaultValidationMode = "manual"
	}
	w.AffinityMode = chance(r, 0.5)
	n := 1 + r.IntN(o.maxNodes)
	plain := pick(r, 0.3, 0.6, 1.0)
	for i := 0; i < n; i++ {
		w.Nodes = append(w.Nodes, genNode(r, nodeName(i), plain))
	}
	for i := 0; i < r.IntN(3); i++ {
		w.SpareNodes = append(w.SpareNodes, genNode(r, nodeName(n+i), plain))
	}
	fancy := o.fancy[r.IntN(len(o.fancy))]
	mkEDS := func(ns, name string) *EDSDef {
		e := &EDSDef{NS: ns, Name: name, Initial: "A", Templates: map[string]*TemplateDef{}}
		letters := []string{"A", "B", "C", "D"}[:2+r.IntN(3)]
		base := genTemplate(r, "A", fancy)
		same := chance(r, 0.5)
		for _, l := range letters {
			if same {
				e.Templates[l] = base.withLetter(l)
			} else {
				e.Templates[l] = genTemplate(r, l, fancy)
			}
		}
		e.Strategy = genStrategy(r, o, chance(r, o.pCanary), string(w.DefaultValidationMode))
		return e
	}
	w.EDS = append(w.EDS, mkEDS("ns1", "foo"))
	if o.twoEDS {
		switch r.IntN(3) {
		case 0:
			w.EDS = append(w.EDS, mkEDS("ns2", "foo"))
		case 1:
			w.EDS = append(w.EDS, mkEDS("ns1", "bar"))
		case 2:
			w.EDS = append(w.EDS, mkEDS("ns2", "bar"))
		}
	}
	if o.overrides {
		w.Extra["overrides"] = "1"
	}
	if o.twoEDS && len(w.EDS) == 2 && chance(r, 0.1) {
		// a name that is legal for the object but not as a label value: its replica sets cannot be
		// created, and it must not pick up anybody else's instead
		w.EDS[1].Name = "bar-" + strings.Repeat("x", 64)
	}
	if o.twoEDS && len(w.EDS) == 2 && w.EDS[0].NS != w.EDS[1].NS && chance(r, 0.4) {
		// the template names a namespace (the one of the other ExtendedDaemonSet): pods belong to the
		// namespace of their own replica set all the same
		for _, t := range w.EDS[0].Templates {
			t.Namespace = w.EDS[1].NS
		}
	}
	if o.twoEDS && len(w.EDS) == 2 && w.EDS[0].NS == w.EDS[1].NS && chance(r, 0.4) {
		// a template written from a dump of a pod of the other ExtendedDaemonSet: it carries the
		// other one's ownership labels, which the controller must overwrite
		for _, t := range w.EDS[0].Templates {
			t.Labels = map[string]string{edsv1.ExtendedDaemonSetNameLabelKey: w.EDS[1].Name, edsv1.ExtendedDaemonSetReplicaSetNameLabelKey: w.EDS[1].Name + "-dumped"}
		}
	}
	if o.migration && chance(r, 0.5) {
		w.EDS[0].OldDS = "legacy"
		w.Foreign = chance(r, 0.7)
		w.Cfg.MigrationEdits = !o.c02 && chance(r, 0.5)
		if o.faults && chance(r, 0.5) {
			w.Cfg.TargetCall = " get DaemonSet "
		}
	} else if o.twoEDS {
		w.Foreign = chance(r, 0.3)
	}
	cfg := &w.Cfg
	cfg.ChaosSteps = pick(r, 30, 60, 120, 200)
	if tier == "thorough" {
		cfg.ChaosSteps = pick(r, 60, 120, 250, 400)
	}
	cfg.Kubelet = true
	cfg.KubeletFaults = chance(r, 0.5)
	cfg.NodeChurn = chance(r, 0.5)
	cfg.TemplateEdits = true
	cfg.AnnotationEdits = chance(r, 0.5)
	cfg.CLI = chance(r, 0.4)
	cfg.Stall = chance(r, 0.5)
	cfg.Policy = pick(r, "uniform", "uniform", "starver")
	if cfg.Policy == "starver" {
		cfg.Starve = pick(r, CtrlEDS, CtrlERS)
	}
	cfg.MapOrder = pick(r, 0, 0, 0, 1, 2)
	if o.faults {
		cfg.PReject = pick(r, 0, 0.01, 0.05, 0.15)
		cfg.PLost = pick(r, 0, 0.01, 0.05)
		cfg.PCrash = pick(r, 0, 0, 0.02, 0.05)
		cfg.SkewSec = pick(r, 0, 0, 1, -1, 2)
		cfg.KubeletSkewSec = pick(r, 0, 0, 1, -2)
	}
	cfg.StrategyEdits = (o.c02 || o.stratEdits) && chance(r, 0.3)
	cfg.Evictions = chance(r, 0.3)
	if o.neverReady && chance(r, 0.15) {
		// the first template never becomes Ready (a broken release); whatever replaces it does
		w.Extra["neverReady"] = "A"
	}
	if o.someOverrides && chance(r, 0.3) {
		w.Extra["overrides"] = "1"
		w.Extra["malformed"] = "1"
		cfg.NodeChurn = true
		if chance(r, 0.5) {
			// a setting too, also on nodes that carry an override annotation for the same container
			sd := &SettingDef{NS: "ns1", Name: "set0", Ref: "foo", Container: "main", Cpu: pick(r, "500m", "600m"), AgeSec: pick(r, 0, 30)}
			if chance(r, 0.5) {
				sd.Selector = map[string]string{"zone": pick(r, "a", "b")}
			} else {
				sd.Selector = map[string]string{"big": "1"}
			}
			w.Settings = append(w.Settings, sd)
		}
	}
	cfg.QuiesceRounds = 4
	if o.c02 {
		w.Extra["c02"] = "1"
		cfg.SaneOnly = true
		cfg.QuiesceRounds = 10 + 6*(n+len(w.SpareNodes)) + 8
		cfg.EndCanary = pick(r, "validate", "fail", "wait")
	}
	return w
}

const histRule = "Seeded histories: a world (nodes with labels/taints, template alphabet, strategy lattice, enabled actors and fault kinds) is drawn per run; the driver then interleaves real reconciles of the four controllers and kubectl-eds commands at API-call granularity with kubelet/scheduler/GC/admin/user actions, clock jumps to boundary instants, API faults (reject, lost reply), crashes and stalls; fault-free and fault-injecting sub-batches alternate by run index; a quiesce phase of fair rounds follows."

func histProfile(name string, decide []string, quick, thorough int, o histOpts, nonvac ...string) *Profile {
	return &Profile{
		Name: name, Decide: decide, Quick: quick, Thorough: thorough, Rule: histRule, NonVacuous: nonvac, Chunk: 50,
		Gen: func(r *rand.Rand, tier string, idx int) *World {
			oo := o
			oo.faults = o.faults && idx%2 == 1 // fault-free and fault-injecting sub-batches alternate
			if tier == "thorough" {
				oo.maxNodes = o.maxNodes * 2
			}
			w := genHistory(r, tier, oo)
			w.Extra["subbatch"] = fmt.Sprint(oo.faults)
			return w
		},
	}
}

func init() {
	c12 := histProfile("C12", []string{"C12"}, 1200, 50000, histOpts{maxNodes: 4, pCanary: 0.4, fancy: []float64{0, 0.3}, faults: true, twoEDS: true, migration: true}, "C12.foreign-listed", "C12.write")
	c12gen := c12.Gen
	c12.Gen = func(r *rand.Rand, tier string, idx int) *World {
		w := c12gen(r, tier, idx)
		if w.EDS[0].OldDS == "" && chance(r, 0.15) {
			// a pod template without any label: the ownership labels are all its pods carry
			for _, t := range w.EDS[0].Templates {
				if t.Labels == nil {
					t.NoLabels = true
				}
			}
		}
		if idx%6 == 4 && len(w.EDS) == 2 {
			// two ExtendedDaemonSets of the same name in two namespaces, both with a canary strategy, whose
			// pods have restarted differently on the nodes: whatever one of them derives from "its" pods
			// (canary node choice, counters) must not see the other one's
			w.EDS[1].Name, w.EDS[1].NS = w.EDS[0].Name, "ns2"
			for len(w.Nodes) < 3 {
				w.Nodes = append(w.Nodes, &NodeDef{Name: nodeName(len(w.Nodes) + 10)})
			}
			for _, e := range w.EDS {
				if e.Strategy.Canary == nil {
					e.Strategy.Canary = &CanaryDef{Replicas: "1", Duration: "10m"}
				}
				e.Strategy.Canary.AntiAffinityKeys = nil
				for _, t := range e.Templates {
					t.Namespace, t.Labels = "", nil
				}
			}
			w.Extra["restartHistory"] = "1"
		}
		return w
	}
	c12.Body = func(s *Sim) {
		s.Setup()
		if s.W.Extra["restartHistory"] == "1" {
			for _, def := range s.W.EDS {
				s.bootstrap(def)
			}
			for i := 0; i < 2+len(s.W.Nodes); i++ {
				s.Round(s.rngEnv)
			}
			for _, p := range s.Store.Pods() {
				for n := s.rngEnv.IntN(4); n > 0 && len(p.Status.ContainerStatuses) > 0; n-- {
					if pp := s.Store.GetPod(p.Namespace, p.Name); pp != nil {
						s.kRestart(pp, "Error")
					}
				}
				if pp := s.Store.GetPod(p.Namespace, p.Name); pp != nil {
					s.kSettle(pp)
				}
			}
			s.Stats.NonVacuous["C12.restart-history"]++
			def := s.W.EDS[s.rngEnv.IntN(2)]
			s.userSetTemplate(def.NS, def.Name, "B")
			s.fairRounds(3)
		}
		s.Chaos()
		if !s.W.Cfg.NoQuiesce {
			s.Quiesce()
		}
	}
	register(c12)
	c02 := histProfile("C02", []string{"C02"}, 800, 40000, histOpts{maxNodes: 6, pCanary: 0.5, fancy: []float64{0, 0.3, 0.7}, faults: true, sane: true, c02: true, migration: true, someOverrides: true, neverReady: true}, "C02.converged")
	c02gen := c02.Gen
	c02.Gen = func(r *rand.Rand, tier string, idx int) *World {
		w := c02gen(r, tier, idx)
		if chance(r, 0.15) {
			// the manifest the user applies names its pod template (a pasted Pod manifest): every
			// template change carries the name again, on an object that is otherwise defaulted
			w.Extra["namedEdits"] = "1"
		}
		return w
	}
	register(c02)
}

// ---------------------------------------------------------------------------------------
// C07: histories that end in a failed canary, faults targeted at the two writes of the
// rollback, then fair fault-free reconciles.

func genC07(r *rand.Rand, tier string, idx int) *World {
	o := histOpts{maxNodes: 5, pCanary: 1, fancy: []float64{0, 0.3}, faults: idx%4 != 0, c02: true}
	if tier == "thorough" {
		o.maxNodes = 10
	}
	w := genHistory(r, tier, o)
	w.Extra["c02prop"] = "C07"
	w.Extra["failHow"] = pick(r, "cli", "cli-midsync", "cli-midsync", "storm", "cli-paused")
	w.Cfg.EndCanary = "fail"
	w.Cfg.ChaosSteps = pick(r, 20, 40, 80)
	w.Cfg.TargetRollback = idx%4 != 0
	w.Cfg.CLI = false
	w.Cfg.TemplateEdits = false
	w.Extra["failSteps"] = pick(r, "20", "40", "80")
	w.Extra["staleStatus"] = pick(r, "0", "0", "1")
	w.Extra["terminating"] = pick(r, "", "", "", "", "active", "canary")
	if chance(r, 0.2) {
		// the canary template differs from the active one in pod metadata only (a config checksum)
		c := *w.EDS[0].Templates["A"]
		c.Checksum = "v2"
		w.EDS[0].Templates["A^"] = &c
		w.Extra["c07target"] = "A^"
	}
	if chance(r, 0.1) {
		w.Extra["malformedReplicas"] = "1"
	}
	if w.Extra["failHow"] != "storm" && chance(r, 0.25) {
		// a broken release: the canary pods never become Ready; after the failure they are unavailable
		// outdated pods, possibly the only outdated ones left
		w.Extra["neverReady"] = "B"
		if t := w.Extra["c07target"]; t != "" {
			w.Extra["neverReady"] = t
		}
	}
	c := w.EDS[0].Strategy.Canary
	if c.Duration != "" {
		c.Duration = pick(r, "1m", "3m", "10m", "10m")
	}
	c.AutoFailEnabled = bptr(true)
	c.AutoFailMaxRestarts = i32(pick(r, int32(2), 3))
	if c.AutoPauseMaxRestarts != nil && *c.AutoPauseMaxRestarts > *c.AutoFailMaxRestarts {
		c.AutoPauseMaxRestarts = i32(1)
	}
	return w
}

func bodyC07(s *Sim) {
	s.Setup()
	def := s.W.EDS[0]
	key := types.NamespacedName{Namespace: def.NS, Name: def.Name}
	// deploy A everywhere, then start the canary of B
	s.bootstrap(def)
	for i := 0; i < 3+len(s.W.Nodes); i++ {
		s.Round(s.rngEnv)
	}
	target := "B"
	if t := s.W.Extra["c07target"]; t != "" {
		target = t
	}
	s.userSetTemplate(def.NS, def.Name, target)
	s.RunTask(CtrlEDS, key)
	s.RunTask(CtrlEDS, key)
	s.Chaos()
	// make the canary fail
	e := s.Store.GetEDS(def.NS, def.Name)
	if tm := s.W.Extra["terminating"]; tm != "" && e != nil && e.Status.Canary != nil {
		// somebody deletes the active (or the canary) replica set while a finalizer holds it: it is
		// Terminating, but it still exists while the canary fails
		name := e.Status.ActiveReplicaSet
		if tm == "canary" {
			name = e.Status.Canary.ReplicaSet
		}
		if r := s.Store.GetERS(def.NS, name); r != nil && r.DeletionTimestamp == nil {
			now := metav1.NewTime(s.Now())
			r.DeletionTimestamp = &now
			r.Finalizers = append(r.Finalizers, "example.com/hold") // held by a finalizer nobody removes: Terminating for the rest of the run
			s.Store.ForceUpdate(r)
		}
	}
	if e == nil || e.Status.Canary == nil {
		s.Probe("c07.no-canary-at-fail-time")
	} else {
		s.Stats.NonVacuous["C07.failed-canary"]++
		if s.W.Extra["malformedReplicas"] == "1" && e.Spec.Strategy.Canary != nil {
			// somebody edits canary.replicas into something that is not a number or a percentage while
			// the canary runs: node selection fails from then on, the rollback of a failed canary must not
			e.Spec.Strategy.Canary.Replicas = intOrStr("50 %")
			s.Store.ForceUpdate(e)
			s.logf("env user.canary-replicas '50 %%'")
			s.Stats.NonVacuous["C07.malformed-replicas"]++
		}
		switch s.W.Extra["failHow"] {
		case "cli-paused":
			s.RunCLI("canary-pause", key)
			s.RunCLI("canary-fail", key)
		case "storm":
			for _, p := range s.Store.Pods() {
				if letterOfPod(p) == target && p.DeletionTimestamp == nil {
					s.kSettle(p)
					pp := s.Store.GetPod(p.Namespace, p.Name)
					for i := 0; i < 5 && pp != nil && len(pp.Status.ContainerStatuses) > 0; i++ {
						s.kRestart(pp, "Error")
						pp = s.Store.GetPod(p.Namespace, p.Name)
					}
				}
			}
		case "cli-midsync":
			// kubectl-eds canary fail lands between the reads and the status write of a sync
			// of the canary replica set
			cr := s.Store.GetERS(def.NS, e.Status.Canary.ReplicaSet)
			if cr != nil {
				s.Advance(s.maxFrequency() + time.Second)
				s.StartReconcile(CtrlERS, types.NamespacedName{Namespace: cr.Namespace, Name: cr.Name})
				for i := 0; i < 2+s.rngEnv.IntN(4); i++ {
					synctestWait()
					p := s.canonicalPending()
					if len(p) == 0 {
						break
					}
					s.grant(p[0], "")
				}
			}
			s.StartCLI("canary-fail", key)
			s.Drain()
		default:
			s.RunCLI("canary-fail", key)
		}
	}
	if s.W.Extra["staleStatus"] == "1" {
		// the replica-set controller lags: the failed replica set's status still shows its
		// pods while more than two minutes pass
		s.RunTask(CtrlEDS, key)
		s.Advance(time.Duration(125+s.rngEnv.IntN(120)) * time.Second)
		s.RunTask(CtrlEDS, key)
		s.RunTask(CtrlEDS, key)
	}
	// targeted-fault phase: only reconciles, kubelet and clock
	steps := 40
	fmt.Sscan(s.W.Extra["failSteps"], &steps)
	s.W.Cfg.ChaosSteps = steps
	s.W.Cfg.NodeChurn, s.W.Cfg.AnnotationEdits, s.W.Cfg.KubeletFaults = false, false, false
	// In half of the runs nobody but the controllers acts from here on, so that the outcome of the
	// rollback can be stated exactly: whatever faults hit it, the failed template is not live again.
	failedLetter, failedName, activeName := "", "", ""
	if e != nil && e.Status.Canary != nil && s.rngEnv.IntN(2) == 0 {
		if cr := s.Store.GetERS(def.NS, e.Status.Canary.ReplicaSet); cr != nil && ersCondTrue(&cr.Status, edsv1.ConditionTypeCanaryFailed) {
			if e2 := s.Store.GetEDS(def.NS, def.Name); e2 != nil && e2.Annotations[edsv1.ExtendedDaemonSetCanaryValidAnnotationKey] == "" && e2.Status.ActiveReplicaSet != cr.Name {
				failedLetter, failedName, activeName = letterOfTpl(&cr.Spec.Template), cr.Name, e2.Status.ActiveReplicaSet
				s.W.Cfg.CLI, s.W.Cfg.TemplateEdits, s.W.Cfg.StrategyEdits, s.W.Cfg.ModeEdits, s.W.Cfg.EDSDelete = false, false, false, false, false
			}
		}
	}
	s.Chaos()
	if failedLetter != "" {
		s.fairRounds(4)
		s.Stats.NonVacuous["C07.outcome"]++
		if e2 := s.Store.GetEDS(def.NS, def.Name); e2 != nil && s.Store.GetERS(def.NS, activeName) != nil {
			switch {
			case e2.Status.ActiveReplicaSet != activeName:
				s.Violate("C07", "outcome", "active", "canary %s (template %s) failed and nobody validated it; after the faults stopped and four fair rounds the active replica set is %s, it was %s", failedName, failedLetter, e2.Status.ActiveReplicaSet, activeName)
			case letterOfTpl(&e2.Spec.Template) == failedLetter:
				s.Violate("C07", "outcome", "template", "canary %s (template %s) failed and nobody changed the template afterwards; after the faults stopped and four fair rounds spec.template still is %s", failedName, failedLetter, failedLetter)
			case e2.Status.Canary != nil:
				s.Violate("C07", "outcome", "canary-restarted", "canary %s (template %s) failed; after the faults stopped and four fair rounds a canary is in progress again (%s)", failedName, failedLetter, e2.Status.Canary.ReplicaSet)
			}
		}
	}
	s.Quiesce()
}

func init() {
	register(&Profile{Name: "C07", Decide: []string{"C07"}, Quick: 1500, Thorough: 80000, Gen: genC07, Body: bodyC07,
		NonVacuous: []string{"C07.rollback", "C07.failed-canary", "C07.retention"}, Chunk: 50,
		Rule: "Histories that end in a Canary-Failed replica set (kubectl-eds canary fail, with or without a preceding pause, or a kubelet restart storm; before or after the duration elapsed), followed by a phase in which API faults and crashes are biased onto the ExtendedDaemonSet reconciler's status write and the following spec write (reject, lost reply, crash before, crash after), then fair fault-free reconcile rounds. " + histRule})
}

// ---------------------------------------------------------------------------------------
// C10: pod shape, stability and sensitivity.

func genC10(r *rand.Rand, tier string, idx int) *World {
	o := histOpts{maxNodes: 5, pCanary: 0.2, fancy: []float64{0.3, 0.7, 1}, faults: idx%2 == 1, c02: true, overrides: true}
	if tier == "thorough" {
		o.maxNodes = 10
	}
	w := genHistory(r, tier, o)
	w.Extra["c02prop"] = "C10"
	w.Extra["c10"] = "1"
	w.Cfg.SettingEdits = true
	w.Cfg.EDSDelete = false
	w.Cfg.PCrash, w.Cfg.PLost = 0, 0
	nset := r.IntN(3)
	for i := 0; i < nset; i++ {
		sd := &SettingDef{NS: "ns1", Name: fmt.Sprintf("set%d", i), Ref: "foo", Container: pick(r, "main", "main", "side"), Cpu: pick(r, "500m", "600m", "0.5"), AgeSec: pick(r, -1, 0, 30, 60)}
		if sd.Container == "main" && chance(r, 0.4) {
			sd.Container2, sd.Cpu2 = "side", pick(r, "150m", "250m") // two containers: an override of the first must not disturb the second
		}
		switch r.IntN(3) {
		case 0:
			sd.Selector = map[string]string{"big": "1"}
		case 1:
			sd.Selector = map[string]string{"zone": pick(r, "a", "b")}
		case 2:
			sd.ExprKey, sd.ExprOp, sd.ExprVals = "pool", "In", []string{pick(r, "x", "y")}
		}
		w.Settings = append(w.Settings, sd)
	}
	// perturbations of malformed overrides are part of the admin vocabulary via Extra
	w.Extra["malformed"] = pick(r, "0", "1")
	// some nodes start with an override annotation (well-formed or not), also where a setting applies
	for _, n := range w.Nodes {
		if chance(r, 0.3) {
			if n.Annotations == nil {
				n.Annotations = map[string]string{}
			}
			ct := pick(r, "main", "main", "side")
			n.Annotations[fmt.Sprintf(edsv1.ExtendedDaemonSetRessourceNodeAnnotationKey, "ns1", "foo", ct)] = pick(r, `{"requests":{"cpu":"300m"}}`, `{"requests":{"cpu":`, `{"limits":{"memory":"1Gi"}}`)
			if chance(r, 0.3) {
				// overrides for both containers, the first one malformed: the second still applies
				n.Annotations[fmt.Sprintf(edsv1.ExtendedDaemonSetRessourceNodeAnnotationKey, "ns1", "foo", "main")] = `{"requests":{"cpu":`
				n.Annotations[fmt.Sprintf(edsv1.ExtendedDaemonSetRessourceNodeAnnotationKey, "ns1", "foo", "side")] = `{"requests":{"cpu":"350m"}}`
			}
		}
	}
	w.Extra["perturb"] = pick(r, "setting", "setting", "override", "template", "none")
	w.Extra["body"] = "c10"
	return w
}

func bodyC10(s *Sim) {
	s.Setup()
	s.Chaos()
	s.Drain()
	// let things settle, then one single-field perturbation; the quiesce phase judges that the
	// affected pods are replaced and nothing else churns
	r := subRng(s.Seed, "c10perturb")
	s.W.Cfg.KubeletFaults = false
	for i := 0; i < 3; i++ {
		s.Round(r)
	}
	def := s.W.EDS[0]
	switch s.W.Extra["perturb"] {
	case "setting":
		if sts := s.Store.Settings(); len(sts) > 0 {
			st := sts[r.IntN(len(sts))]
			if len(st.Spec.Containers) > 0 {
				q := st.Spec.Containers[0].Resources.Requests[corev1.ResourceCPU]
				nv := "700m"
				if q.String() == "700m" {
					nv = "800m"
				}
				st.Spec.Containers[0].Resources = corev1.ResourceRequirements{Requests: corev1.ResourceList{corev1.ResourceCPU: resource.MustParse(nv)}}
				s.Store.ForceUpdate(st)
				s.Probe("c10.perturb-setting")
			}
		}
	case "override":
		if acts := s.adminActions(); len(acts) > 0 {
			var ov []Action
			for _, a := range acts {
				if strings.HasPrefix(a.K, "node.override") {
					ov = append(ov, a)
				}
			}
			if len(ov) > 0 {
				a := ov[r.IntN(len(ov))]
				s.logf("env %s", a.K)
				a.Do()
				s.Probe("c10.perturb-override")
			}
		}
	case "template":
		if e := s.Store.GetEDS(def.NS, def.Name); e != nil {
			cur := letterOfTpl(&e.Spec.Template)
			for _, l := range sortedKeys(def.Templates) {
				if l != cur {
					s.userSetTemplate(def.NS, def.Name, l)
					s.Probe("c10.perturb-template")
					break
				}
			}
		}
	}
	s.Quiesce()
}

func init() {
	register(&Profile{Name: "C10", Decide: []string{"C10"}, Quick: 1500, Thorough: 80000, Gen: genC10, Body: bodyC10,
		NonVacuous: []string{"C10.create", "C10.converged"}, Chunk: 50,
		Rule: "Templates with/without affinity (several terms), node selectors, tolerations, 1-2 containers, resources; nodes with labels and well-formed or malformed resource-override annotations; 0-2 ExtendedDaemonsetSettings (valid, conflicting, edited); both node-assignment modes; single-field perturbations (template, override annotation, setting value) during the run; every pod create is judged, and at quiescence every pod must reflect the current inputs and a further round must not replace anything. " + histRule})
}

// ---------------------------------------------------------------------------------------
// C18: setting populations.

func genC18(r *rand.Rand, tier string, idx int) *World {
	w := &World{DefaultValidationMode: "auto", Extra: map[string]string{"c18": "1"}}
	n := 1 + r.IntN(4)
	for i := 0; i < n; i++ {
		nd := &NodeDef{Name: nodeName(i), Labels: map[string]string{}}
		for _, lv := range nodeLabelVocab[:3] {
			if chance(r, 0.6) {
				nd.Labels[lv.k] = pick(r, lv.vs...)
			}
		}
		w.Nodes = append(w.Nodes, nd)
	}
	w.EDS = []*EDSDef{{NS: "ns1", Name: "foo", Initial: "A", Templates: map[string]*TemplateDef{"A": {Letter: "A"}}, Strategy: StrategyDef{ReconcileFrequency: "10s", SlowStartIncrease: "5", SlowStartInterval: "10s"}}}
	ns := 1 + r.IntN(4)
	sameAge := chance(r, 0.3)
	for i := 0; i < ns; i++ {
		sd := &SettingDef{NS: "ns1", Name: fmt.Sprintf("set%d", i), Ref: "foo", Container: "main", Cpu: pick(r, "500m", "600m"), AgeSec: pick(r, 0, 10, 20, 30)}
		if sameAge {
			sd.AgeSec = 10
		}
		if chance(r, 0.12) {
			sd.Ref = ""
		} else if chance(r, 0.2) {
			sd.Ref = "bar" // another ExtendedDaemonSet: the settings of a namespace compete whatever they reference
		}
		switch r.IntN(5) {
		case 0:
			sd.Selector = map[string]string{"zone": pick(r, "a", "b")}
		case 1:
			sd.Selector = map[string]string{"pool": pick(r, "x", "y")}
		case 2:
			sd.ExprKey, sd.ExprOp, sd.ExprVals = "zone", pick(r, "In", "NotIn"), []string{pick(r, "a", "b")}
		case 3:
			sd.ExprKey, sd.ExprOp = pick(r, "canary", "pool"), pick(r, "Exists", "DoesNotExist")
		case 4:
			sd.Selector = map[string]string{"zone": "a", "pool": "x"}
		}
		if chance(r, 0.1) {
			sd.Selector, sd.ExprKey, sd.ExprOp, sd.ExprVals = nil, "", "", nil // empty selector: every node
		}
		if chance(r, 0.07) && w.Extra["unusable"] == "" && idx%4 == 3 {
			sd.Selector, sd.ExprKey, sd.ExprOp, sd.ExprVals = nil, "zone", "In", nil // In with no values: unusable
			if chance(r, 0.5) {
				// an operator that does not exist, next to a usable requirement: unusable as a whole
				sd.Selector, sd.ExprKey, sd.ExprOp, sd.ExprVals = map[string]string{"zone": pick(r, "a", "b")}, "pool", "Near", []string{"x"}
			}
			w.Extra["unusable"] = sd.Name
		}
		if chance(r, 0.2) {
			sd.AgeSec = -1 // created later by the user
		} else if chance(r, 0.12) {
			sd.Terminating = true
		}
		w.Settings = append(w.Settings, sd)
	}
	if chance(r, 0.1) {
		// a node registered without any label; every other node carries all the labels, and the settings
		// select by absence only - they can meet on the bare node and nowhere else
		w.Nodes[0].Bare, w.Nodes[0].Labels = true, nil
		for _, nd := range w.Nodes[1:] {
			nd.Labels = map[string]string{"zone": pick(r, "a", "b"), "pool": pick(r, "x", "y"), "canary": "yes"}
		}
		for i, sd := range w.Settings {
			if sd.Name == w.Extra["unusable"] {
				continue
			}
			sd.Selector, sd.ExprVals = nil, nil
			sd.ExprKey, sd.ExprOp = []string{"pool", "canary", "zone"}[i%3], "DoesNotExist"
		}
		w.Extra["bareNode"] = "1"
	}
	w.Cfg = Config{ChaosSteps: pick(r, 10, 30, 60), Kubelet: true, SettingEdits: true, NodeChurn: chance(r, 0.4), Stall: chance(r, 0.3), MapOrder: 0}
	if idx%2 == 1 {
		w.Cfg.PReject = pick(r, 0.0, 0.05, 0.15)
		w.Cfg.TargetCall = pick(r, "", " list ExtendedDaemonsetSetting ", " list Node ")
	}
	return w
}

func bodyC18(s *Sim) {
	s.Setup()
	s.Chaos()
	// the judged pass: every setting reconciled fault-free against one cluster state
	r := subRng(s.Seed, "c18pass")
	for pass := 0; pass < 2; pass++ {
		for _, k := range s.shuffled(s.Store.Keys(KSetting), r) {
			s.RunTask(CtrlSetting, types.NamespacedName{Namespace: k.NS, Name: k.Name})
		}
	}
	for _, m := range s.Monitors {
		m.Quiesced(s)
	}
}

func init() {
	register(&Profile{Name: "C18", Decide: []string{"C18"}, Quick: 4000, Thorough: 200000, Gen: genC18, Body: bodyC18,
		NonVacuous: []string{"C18.overlap", "C18.applied"}, Chunk: 100,
		Rule: "Populations of 1-4 ExtendedDaemonsetSettings in one namespace (in a tenth a node registered without any label and settings that select by absence only; equal or different creation times, selectors by labels or expressions incl. NotIn/Exists/DoesNotExist, with or without reference, occasionally an unusable selector) over 1-4 labelled nodes; setting create/edit/delete and node relabelling interleaved with setting, ExtendedDaemonSet and replica-set reconciles in seeded order, list failures injected; then a fault-free pass reconciling every setting in a PRNG order, after which the verdicts are judged; every pod create is checked for the setting it applied."})
}

// ---------------------------------------------------------------------------------------
// C19: kubectl-eds commands as simulated clients, then the controller's interpretation.

func genC19(r *rand.Rand, tier string, idx int) *World {
	o := histOpts{maxNodes: 4, pCanary: 0.8, fancy: []float64{0}, faults: false}
	w := genHistory(r, tier, o)
	w.Cfg.CLI = true
	w.Cfg.PCrash, w.Cfg.PLost, w.Cfg.PReject = 0, 0, 0
	w.Cfg.NodeChurn = false
	w.Cfg.EDSDelete = false
	w.Cfg.ChaosSteps = pick(r, 20, 40, 80, 120)
	if c := w.EDS[0].Strategy.Canary; c != nil {
		// no promotion by time while the consequences of the commands are judged
		mode := c.ValidationMode
		if mode == "" {
			mode = string(w.DefaultValidationMode)
		}
		if mode != "manual" {
			c.Duration = "6h"
		}
		c.NoRestartsDuration = ""
		c.CanaryTimeout = ""
		c.NodeSelector = nil
	}
	w.Extra["final"] = pick(r, "canary-pause", "canary-unpause", "canary-validate", "canary-fail", "ru-pause", "freeze", "seq:canary-pause,canary-unpause,canary-pause", "seq:canary-unpause,canary-pause,canary-unpause", "seq0:canary-pause,canary-unpause,canary-pause")
	w.Extra["c02prop"] = "C19"
	if idx%3 == 1 {
		w.Extra["finalFault"] = pick(r, "reject", "lost", "crash-before", "crash-after")
		w.Extra["finalFaultAt"] = pick(r, "updatestatus", "update", "any")
	}
	return w
}

func (s *Sim) fairRounds(n int) {
	s.chaosCount++
	r := subRng(s.Seed, fmt.Sprintf("fair%d", s.chaosCount))
	for i := 0; i < n; i++ {
		s.step++
		s.Round(r)
	}
}

func bodyC19(s *Sim) {
	s.Setup()
	def := s.W.EDS[0]
	key := types.NamespacedName{Namespace: def.NS, Name: def.Name}
	s.bootstrap(def)
	for i := 0; i < 2+len(s.W.Nodes); i++ {
		s.Round(s.rngEnv)
	}
	if s.rngEnv.IntN(4) != 0 {
		s.userSetTemplate(def.NS, def.Name, "B")
		s.RunTask(CtrlEDS, key)
		s.RunTask(CtrlEDS, key)
	}
	s.Chaos()
	// quiet down, then the judged command
	s.W.Cfg.KubeletFaults = false
	if s.W.Extra["final"] == "canary-unpause" && s.rngEnv.IntN(2) == 0 {
		// the state "auto-paused": a canary pod restarts three times
		if e := s.Store.GetEDS(def.NS, def.Name); e != nil && e.Status.Canary != nil {
			for _, p := range s.Store.Pods() {
				if isDaemonPod(p, def.NS, def.Name) && p.Labels[edsv1.ExtendedDaemonSetReplicaSetNameLabelKey] == e.Status.Canary.ReplicaSet && !terminating(p) {
					s.kSettle(p)
					for i := 0; i < 3; i++ {
						if pp := s.Store.GetPod(p.Namespace, p.Name); pp != nil && len(pp.Status.ContainerStatuses) > 0 {
							s.kRestart(pp, "Error")
						}
					}
					if pp := s.Store.GetPod(p.Namespace, p.Name); pp != nil {
						s.kSettle(pp)
					}
					s.Stats.NonVacuous["C19.auto-paused-state"]++
					break
				}
			}
		}
	}
	s.fairRounds(2)
	if e := s.Store.GetEDS(def.NS, def.Name); e != nil && s.W.Extra["final"] == "canary-fail" && e.Status.Canary != nil && e.Spec.Strategy.Canary != nil && s.rngEnv.IntN(3) == 0 {
		// The canary is validated and, before its rollout is over, the template is reverted: the
		// replica set that was active a moment ago (and still has pods) is the canary now. It is this
		// re-used replica set that the final command fails.
		if act := s.Store.GetERS(def.NS, e.Status.ActiveReplicaSet); act != nil {
			prev := letterOfTpl(&act.Spec.Template)
			if t := s.RunCLI("canary-validate", key); t.Err == nil {
				s.fairRounds(1)
				s.userSetTemplate(def.NS, def.Name, prev)
				s.fairRounds(2)
				if e2 := s.Store.GetEDS(def.NS, def.Name); e2 != nil && e2.Status.Canary != nil && e2.Status.Canary.ReplicaSet == act.Name {
					s.Stats.NonVacuous["C19.reused-replicaset-is-canary"]++
				}
			}
		}
	}
	e := s.Store.GetEDS(def.NS, def.Name)
	if e == nil {
		return
	}
	cmd := s.W.Extra["final"]
	if strings.HasPrefix(cmd, "seq0:") {
		// pause, reconciles, then unpause and pause again before any controller has reacted: the last
		// command is judged against the annotations (the status still tells the older story)
		cs := strings.Split(strings.TrimPrefix(cmd, "seq0:"), ",")
		if e.Status.Canary == nil {
			return
		}
		canary := e.Status.Canary.ReplicaSet
		if r := s.Store.GetERS(def.NS, canary); r == nil || ersCondTrue(&r.Status, edsv1.ConditionTypeCanaryFailed) {
			return
		}
		s.RunCLI(cs[0], key)
		s.fairRounds(3)
		if e2 := s.Store.GetEDS(def.NS, def.Name); e2 == nil || e2.Status.Canary == nil || e2.Status.Canary.ReplicaSet != canary {
			return
		}
		if t := s.RunCLI(cs[1], key); t.Err != nil {
			return
		}
		cur := s.Store.GetEDS(def.NS, def.Name)
		t := s.RunCLI(cs[2], key)
		s.Stats.NonVacuous["C19.back-to-back"]++
		if t.Err != nil && cur != nil && cur.Annotations[edsv1.ExtendedDaemonSetCanaryPausedAnnotationKey] != "true" && cur.Status.Canary != nil && !t.Faulted && !t.Conflict {
			s.Violate("C19", "refusal", "pause", "canary-pause right after canary-unpause refused (%v) although the canary %s is active and canary-paused is %q", t.Err, canary, cur.Annotations[edsv1.ExtendedDaemonSetCanaryPausedAnnotationKey])
		}
		s.fairRounds(3)
		if e3 := s.Store.GetEDS(def.NS, def.Name); t.Err == nil && e3 != nil && e3.Status.Canary != nil && e3.Status.Canary.ReplicaSet == canary {
			if r := s.Store.GetERS(def.NS, canary); r != nil && !ersCondTrue(&r.Status, edsv1.ConditionTypeCanaryFailed) && e3.Status.State != edsv1.ExtendedDaemonSetStatusStateCanaryPaused {
				s.Violate("C19", "obeys", "sequence-pause", "after pause, unpause, pause (the last two back to back) the state is %q, expected Canary Paused", e3.Status.State)
			}
		}
		return
	}
	if strings.HasPrefix(cmd, "seq:") {
		// a sequence of up to three commands, each followed by fair reconciles and judged
		for i, c := range strings.Split(strings.TrimPrefix(cmd, "seq:"), ",") {
			e := s.Store.GetEDS(def.NS, def.Name)
			if e == nil || e.Status.Canary == nil {
				return
			}
			canary := e.Status.Canary.ReplicaSet
			if r := s.Store.GetERS(def.NS, canary); r == nil || ersCondTrue(&r.Status, edsv1.ConditionTypeCanaryFailed) {
				return
			}
			if t := s.RunCLI(c, key); t.Err != nil {
				continue // refused (e.g. already paused): judged by the write-set monitor
			}
			s.Stats.NonVacuous["C19.sequence"]++
			s.fairRounds(3)
			e = s.Store.GetEDS(def.NS, def.Name)
			if e == nil || e.Status.Canary == nil || e.Status.Canary.ReplicaSet != canary {
				return
			}
			if r := s.Store.GetERS(def.NS, canary); r == nil || ersCondTrue(&r.Status, edsv1.ConditionTypeCanaryFailed) {
				return
			}
			switch c {
			case "canary-pause":
				if e.Status.State != edsv1.ExtendedDaemonSetStatusStateCanaryPaused {
					s.Violate("C19", "obeys", "sequence-pause", "command %d of %s: after canary-pause the state is %q, expected Canary Paused", i+1, cmd, e.Status.State)
				}
				if r := s.Store.GetERS(def.NS, canary); r != nil && !ersCondTrue(&r.Status, edsv1.ConditionTypeCanaryPaused) {
					s.Violate("C19", "obeys", "sequence-pause-replicaset", "command %d of %s: after canary-pause and three fair rounds the canary replica set %s does not report Canary-Paused", i+1, cmd, canary)
				}
			case "canary-unpause":
				if e.Status.State != edsv1.ExtendedDaemonSetStatusStateCanary {
					s.Violate("C19", "obeys", "sequence-unpause", "command %d of %s: after canary-unpause the state is %q, expected Canary", i+1, cmd, e.Status.State)
				}
			}
		}
		return
	}
	before := e.DeepCopy()
	var canaryERS string
	condPaused := false
	if e.Status.Canary != nil {
		canaryERS = e.Status.Canary.ReplicaSet
		if r := s.Store.GetERS(def.NS, canaryERS); r != nil {
			condPaused = ersCondTrue(&r.Status, edsv1.ConditionTypeCanaryPaused)
			if ersCondTrue(&r.Status, edsv1.ConditionTypeCanaryFailed) {
				return // already failed: rollback in flight, consequences not separable
			}
		}
	}
	if cmd == "canary-validate" && canaryERS != "" && s.rngEnv.IntN(3) == 0 && e.Annotations[edsv1.ExtendedDaemonSetCanaryValidAnnotationKey] == "" {
		// left over from an earlier, promoted canary whose replica set is long gone
		s.userAnnotate(def.NS, def.Name, edsv1.ExtendedDaemonSetCanaryValidAnnotationKey, def.Name+"-gone1")
		before = s.Store.GetEDS(def.NS, def.Name).DeepCopy()
	}
	if (cmd == "canary-pause" || cmd == "canary-unpause") && canaryERS != "" && s.rngEnv.IntN(4) == 0 {
		// another tool wrote the pause annotation in a spelling the controller does not obey
		// ("true" and "false" are the only values with a meaning): the commands act as if it was absent
		s.userAnnotate(def.NS, def.Name, edsv1.ExtendedDaemonSetCanaryPausedAnnotationKey, pick(s.rngEnv, "True", "False", "1", "0", "TRUE", "f"))
		s.Stats.NonVacuous["C19.non-canonical-annotation"]++
		before = s.Store.GetEDS(def.NS, def.Name).DeepCopy()
	}
	t := s.RunCLI(cmd, key)
	if t.Err != nil {
		// refused: only legitimate when the precondition does not hold
		cur := s.Store.GetEDS(def.NS, def.Name)
		if cur != nil && cur.Status.Canary != nil && cur.Status.Canary.ReplicaSet == canaryERS && canaryERS != "" && !t.Faulted && !t.Conflict {
			switch {
			case cmd == "canary-validate" && cur.Annotations[edsv1.ExtendedDaemonSetCanaryValidAnnotationKey] != canaryERS:
				s.Violate("C19", "refusal", "validate", "canary-validate refused (%v) although %s is the running canary and was not validated before", t.Err, canaryERS)
			case cmd == "canary-fail":
				s.Violate("C19", "refusal", "fail", "canary-fail refused (%v) although %s is the running canary", t.Err, canaryERS)
			case cmd == "canary-unpause" && cur.Annotations[edsv1.ExtendedDaemonSetCanaryPausedAnnotationKey] != "false" && condPaused:
				s.Violate("C19", "refusal", "unpause", "canary-unpause refused (%v) although the canary %s had paused itself (canary-paused annotation %q)", t.Err, canaryERS, cur.Annotations[edsv1.ExtendedDaemonSetCanaryPausedAnnotationKey])
			case cmd == "canary-pause" && cur.Annotations[edsv1.ExtendedDaemonSetCanaryPausedAnnotationKey] != "true":
				s.Violate("C19", "refusal", "pause", "canary-pause refused (%v) although the canary %s is running and not paused by annotation", t.Err, canaryERS)
			}
		}
		return
	}
	s.Stats.NonVacuous["C19.obeyed"]++
	if cmd == "canary-validate" && s.rngEnv.IntN(2) == 0 && e.Spec.Strategy.Canary != nil {
		// the template is edited right after the command, before the controller has seen it:
		// the replica set of the newer template was never validated and must not be promoted
		cur := letterOfTpl(&e.Spec.Template)
		for _, l := range sortedKeys(def.Templates) {
			if l != cur && s.ersByLetter(def, l) == nil {
				s.userSetTemplate(def.NS, def.Name, l)
				s.fairRounds(3)
				if e2 := s.Store.GetEDS(def.NS, def.Name); e2 != nil {
					if act := s.Store.GetERS(def.NS, e2.Status.ActiveReplicaSet); act != nil && letterOfTpl(&act.Spec.Template) == l {
						s.Violate("C19", "obeys", "validate-then-edit", "canary %s was validated, then the template was changed to %s before any reconcile: the replica set of %s became active although it was never validated", canaryERS, l, l)
					}
				}
				return
			}
		}
	}
	if fk := s.W.Extra["finalFault"]; fk != "" && (cmd == "canary-fail" || cmd == "canary-validate") {
		// the reconcile that acts on the command is hit by a fault or the process stops around
		// one of its writes; fresh, fault-free reconciles follow and must still obey the command
		s.RunTaskWithFault(CtrlEDS, key, fk, func(c *Call) bool {
			return c.IsWrite() && c.Kind == KEDS && (s.W.Extra["finalFaultAt"] == "any" || c.Verb == s.W.Extra["finalFaultAt"])
		})
	}
	s.fairRounds(3)
	e = s.Store.GetEDS(def.NS, def.Name)
	if e == nil {
		return
	}
	obey := func(sig, f string, a ...interface{}) {
		s.Violate("C19", "obeys", sig, "after %s: %s", cmd, fmt.Sprintf(f, a...))
	}
	switch cmd {
	case "canary-pause":
		if e.Status.State != edsv1.ExtendedDaemonSetStatusStateCanaryPaused {
			obey(cmd, "state is %q, expected Canary Paused", e.Status.State)
		}
	case "canary-unpause":
		if !condPaused && e.Status.State != edsv1.ExtendedDaemonSetStatusStateCanary {
			obey(cmd, "state is %q, expected Canary (the pause was a user pause)", e.Status.State)
		}
		if condPaused && e.Status.State == edsv1.ExtendedDaemonSetStatusStateCanaryPaused && e.Status.Canary != nil && e.Status.Canary.ReplicaSet == canaryERS &&
			annTrue(e.Annotations, edsv1.ExtendedDaemonSetCanaryUnpausedAnnotationKey) && !annTrue(e.Annotations, edsv1.ExtendedDaemonSetCanaryPausedAnnotationKey) {
			obey("unpause-auto-paused", "the canary had paused itself, the command set canary-unpaused=true, and the state is still %q", e.Status.State)
		}
	case "canary-validate":
		if e.Status.ActiveReplicaSet != canaryERS {
			obey(cmd, "active replica set is %s, the validated canary was %s", e.Status.ActiveReplicaSet, canaryERS)
		}
		// a later template change must not be promoted by the old annotation
		cur := letterOfTpl(&e.Spec.Template)
		for _, l := range sortedKeys(def.Templates) {
			if l != cur && s.ersByLetter(def, l) == nil {
				s.userSetTemplate(def.NS, def.Name, l)
				s.fairRounds(2)
				e2 := s.Store.GetEDS(def.NS, def.Name)
				if e2 != nil && e2.Spec.Strategy.Canary != nil && e2.Status.ActiveReplicaSet != canaryERS {
					obey("stale-validation", "template changed to %s after the command; the new replica set %s became active although only %s was validated", l, e2.Status.ActiveReplicaSet, canaryERS)
				}
				break
			}
		}
	case "canary-fail":
		act := s.Store.GetERS(def.NS, before.Status.ActiveReplicaSet)
		if e.Status.ActiveReplicaSet != before.Status.ActiveReplicaSet {
			obey("fail-active", "active replica set changed from %s to %s", before.Status.ActiveReplicaSet, e.Status.ActiveReplicaSet)
		} else if act != nil {
			if e.Status.Canary != nil {
				obey("fail-canary-block", "status.canary still set")
			}
			if letterOfTpl(&e.Spec.Template) != letterOfTpl(&act.Spec.Template) {
				obey("fail-template", "spec.template is %s, active template is %s", letterOfTpl(&e.Spec.Template), letterOfTpl(&act.Spec.Template))
			}
		}
	case "ru-pause":
		if e.Status.State != edsv1.ExtendedDaemonSetStatusStateRollingUpdatePaused && !annTrue(e.Annotations, edsv1.ExtendedDaemonSetRolloutFrozenAnnotationKey) && e.Status.Canary == nil && e.Spec.Strategy.Canary == nil {
			obey(cmd, "state is %q, expected RollingUpdate Paused", e.Status.State)
		}
	case "freeze":
		if e.Status.State != edsv1.ExtendedDaemonSetStatusStateRolloutFrozen && e.Status.Canary == nil && e.Spec.Strategy.Canary == nil {
			obey(cmd, "state is %q, expected Rollout frozen", e.Status.State)
		}
	}
}

func init() {
	register(&Profile{Name: "C19", Decide: []string{"C19"}, Quick: 1500, Thorough: 80000, Gen: genC19, Body: bodyC19,
		NonVacuous: []string{"C19.command", "C19.obeyed"}, Chunk: 50,
		Rule: "ExtendedDaemonSet states {no canary, canary running, auto-paused, user-paused, failed, mid rolling update} reached by seeded history with the real kubectl-eds command bodies running as simulated clients whose Get and Patch/Update interleave with reconciles; every command's write set and refusal is judged; then one final command (or a sequence of three pause/unpause commands, each) followed by fair reconciles (in a third of the runs the first reconcile acting on a fail or validate command loses one of its ExtendedDaemonSet writes to a reject, a lost reply or a process stop before/after it), after which the controller's interpretation (state, promotion of exactly the validated replica set, rollback) is judged. " + histRule})
}

// ---------------------------------------------------------------------------------------
// C08: per-sync monitors ride on the history; the body adds the liveness halves: a paused
// rolling update still fills empty nodes, a paused canary resumes on unpause, and everything
// completes once the annotations are lifted.

func genC08(r *rand.Rand, tier string, idx int) *World {
	o := histOpts{maxNodes: 5, pCanary: 0.5, fancy: []float64{0, 0.3}, faults: idx%2 == 1, c02: true}
	if tier == "thorough" {
		o.maxNodes = 10
	}
	w := genHistory(r, tier, o)
	hold := pick(r, "", "ru-paused", "ru-paused", "canary-unpause", "canary-unpause", "frozen", "paused-wait", "paused-wait")
	if hold == "canary-unpause" || hold == "paused-wait" {
		o.pCanary = 1
		w = genHistory(subRng(uint64(idx)*7919+1, "c08canary"), tier, o)
	}
	w.Extra["c02prop"] = "C08"
	w.Cfg.AnnotationEdits = true
	w.Cfg.EndCanary = "validate"
	w.Extra["hold"] = hold
	if c := w.EDS[0].Strategy.Canary; c != nil && w.Extra["hold"] == "paused-wait" {
		c.CanaryTimeout = ""
		c.AutoPauseEnabled = bptr(true)
		c.AutoPauseMaxRestarts = i32(1)
		c.AutoFailEnabled = bptr(false)
		c.NodeSelector = nil
	}
	if c := w.EDS[0].Strategy.Canary; c != nil && w.Extra["hold"] == "canary-unpause" {
		mode := c.ValidationMode
		if mode == "" {
			mode = string(w.DefaultValidationMode)
		}
		if mode != "manual" {
			c.Duration = "6h" // the canary must still be there when it is unpaused
		}
		c.CanaryTimeout = ""
		c.NodeSelector = nil
		if chance(r, 0.5) {
			// the pause to lift is an automatic one (a restarting canary pod)
			w.Extra["autoPaused"] = "1"
			c.AutoPauseEnabled = bptr(true)
			c.AutoPauseMaxRestarts = i32(1)
			c.AutoFailEnabled = bptr(false)
			c.Replicas = pick(r, "2", "3")
		}
	}
	return w
}

func (s *Sim) activeTemplateSpec(e *edsv1.ExtendedDaemonSet) *corev1.PodSpec {
	act := s.Store.GetERS(e.Namespace, e.Status.ActiveReplicaSet)
	if act == nil {
		return nil
	}
	return &act.Spec.Template.Spec
}

func bodyC08(s *Sim) {
	s.Setup()
	s.Chaos()
	s.Drain()
	def := s.W.EDS[0]
	key := types.NamespacedName{Namespace: def.NS, Name: def.Name}
	r := subRng(s.Seed, "c08hold")
	bound := s.c02Bound()
	s.W.Cfg.KubeletFaults, s.W.Cfg.NodeChurn = false, false
	if h := s.W.Extra["hold"]; h == "canary-unpause" || h == "paused-wait" {
		// make sure a canary is in progress
		if e := s.Store.GetEDS(def.NS, def.Name); e != nil && e.Spec.Strategy.Canary != nil && e.Status.Canary == nil {
			s.clearHolds(r)
			s.userAnnotate(def.NS, def.Name, edsv1.ExtendedDaemonSetCanaryValidAnnotationKey, "-")
			for i := 0; i < 3; i++ {
				s.Round(r)
			}
			cur := letterOfTpl(&e.Spec.Template)
			for _, l := range sortedKeys(def.Templates) {
				if l != cur {
					s.userSetTemplate(def.NS, def.Name, l)
					break
				}
			}
			for i := 0; i < 4; i++ {
				s.Round(r)
			}
		}
	}
	switch s.W.Extra["hold"] {
	case "ru-paused", "frozen":
		frozen := s.W.Extra["hold"] == "frozen"
		s.userAnnotate(def.NS, def.Name, edsv1.ExtendedDaemonSetRolloutFrozenAnnotationKey, map[bool]string{true: "true", false: "-"}[frozen])
		s.userAnnotate(def.NS, def.Name, edsv1.ExtendedDaemonSetRollingUpdatePausedAnnotationKey, map[bool]string{true: "-", false: "true"}[frozen])
		// remember which nodes are empty now: while frozen they must stay empty
		for i := 1; i <= bound; i++ {
			s.step++
			s.endCanaries(i)
			s.Round(r)
		}
		e := s.Store.GetEDS(def.NS, def.Name)
		if e == nil {
			break
		}
		spec := s.activeTemplateSpec(e)
		if spec == nil || s.canaryBusy() {
			break
		}
		s.Stats.NonVacuous["C08.hold-"+s.W.Extra["hold"]]++
		if !frozen {
			for _, n := range s.Store.Nodes() {
				if !eligibleSpec(n, spec) {
					continue
				}
				has := false
				for _, p := range s.Store.Pods() {
					if isDaemonPod(p, def.NS, def.Name) && podNode(p) == n.Name && !terminating(p) {
						has = true
					}
				}
				if !has {
					s.Violate("C08", "paused-still-creates", "", "rolling-update-paused for %d rounds: eligible node %s still has no daemon pod", bound, n.Name)
				}
			}
		}
	case "paused-wait":
		// a paused canary (annotation, CLI or its own Canary-Paused condition) is not promoted by time
		e := s.Store.GetEDS(def.NS, def.Name)
		if e == nil || e.Spec.Strategy.Canary == nil || e.Status.Canary == nil || e.Spec.Strategy.Canary.Duration == nil {
			break
		}
		cr := s.Store.GetERS(def.NS, e.Status.Canary.ReplicaSet)
		if cr == nil || ersCondTrue(&cr.Status, edsv1.ConditionTypeCanaryFailed) {
			break
		}
		s.userAnnotate(def.NS, def.Name, edsv1.ExtendedDaemonSetCanaryValidAnnotationKey, "-")
		s.userAnnotate(def.NS, def.Name, edsv1.ExtendedDaemonSetCanaryUnpausedAnnotationKey, "-")
		how := pick(r, "annotation", "cli", "auto", "auto", "repause", "repause")
		switch how {
		case "repause":
			// paused, unpaused, then paused again: the replica set now carries Canary-Paused=False
			s.userAnnotate(def.NS, def.Name, edsv1.ExtendedDaemonSetCanaryPausedAnnotationKey, "-")
			s.RunCLI("canary-pause", key)
			s.Round(r)
			s.Round(r)
			s.RunCLI("canary-unpause", key)
			s.Round(r)
			s.Round(r)
			s.RunCLI("canary-pause", key)
		case "annotation":
			s.userAnnotate(def.NS, def.Name, edsv1.ExtendedDaemonSetCanaryPausedAnnotationKey, "true")
		case "cli":
			s.userAnnotate(def.NS, def.Name, edsv1.ExtendedDaemonSetCanaryPausedAnnotationKey, "-")
			s.RunCLI("canary-pause", key)
		case "auto":
			s.userAnnotate(def.NS, def.Name, edsv1.ExtendedDaemonSetCanaryPausedAnnotationKey, "-")
			s.Round(r)
			letter := letterOfTpl(&cr.Spec.Template)
			for _, p := range s.Store.Pods() {
				if letterOfPod(p) == letter && isDaemonPod(p, def.NS, def.Name) && !terminating(p) {
					s.kSettle(p)
					for i := 0; i < 3; i++ {
						if pp := s.Store.GetPod(p.Namespace, p.Name); pp != nil && len(pp.Status.ContainerStatuses) > 0 {
							s.kRestart(pp, "Error")
						}
					}
				}
			}
		}
		s.Round(r)
		s.Round(r)
		e = s.Store.GetEDS(def.NS, def.Name)
		if e == nil || e.Status.State != edsv1.ExtendedDaemonSetStatusStateCanaryPaused {
			break // the pause did not take (e.g. no canary pod to restart)
		}
		// the premise is the pause itself, not what status.state still says: a reconcile that ends in an
		// error (too few valid canary nodes) writes no status, and the state can be that of an earlier pause
		if crNow := s.Store.GetERS(def.NS, cr.Name); crNow == nil || !(annTrue(e.Annotations, edsv1.ExtendedDaemonSetCanaryPausedAnnotationKey) || ersCondTrue(&crNow.Status, edsv1.ConditionTypeCanaryPaused)) {
			s.Probe("c08.paused-wait-state-stale")
			break
		}
		s.Stats.NonVacuous["C08.paused-wait-"+how]++
		active := e.Status.ActiveReplicaSet
		d := e.Spec.Strategy.Canary.Duration.Duration
		if nr := e.Spec.Strategy.Canary.NoRestartsDuration; nr != nil && nr.Duration > d {
			d = nr.Duration
		}
		s.Advance(d + time.Minute)
		for i := 0; i < 3; i++ {
			s.step++
			s.Round(r)
		}
		e = s.Store.GetEDS(def.NS, def.Name)
		if e != nil && e.Status.ActiveReplicaSet != active {
			cr2 := s.Store.GetERS(def.NS, cr.Name)
			conds := ""
			if cr2 != nil {
				conds = fmt.Sprint(cr2.Status.Conditions)
			}
			s.Violate("C08", "paused-promoted", how, "canary paused (%s); after the duration elapsed the active replica set changed from %s to %s (annotations %v; canary replica set %s conditions %s)", how, active, e.Status.ActiveReplicaSet, e.Annotations, cr.Name, conds)
		}
	case "canary-unpause":
		e := s.Store.GetEDS(def.NS, def.Name)
		if e == nil || e.Spec.Strategy.Canary == nil || e.Status.Canary == nil {
			break
		}
		cr := s.Store.GetERS(def.NS, e.Status.Canary.ReplicaSet)
		if cr == nil || ersCondTrue(&cr.Status, edsv1.ConditionTypeCanaryFailed) {
			break
		}
		// pause it (user), then take canary pods away, then unpause
		how := pick(r, "annotation", "cli", "already")
		paused := annTrue(e.Annotations, edsv1.ExtendedDaemonSetCanaryPausedAnnotationKey) || ersCondTrue(&cr.Status, edsv1.ConditionTypeCanaryPaused)
		keep := ""
		if !paused && s.W.Extra["autoPaused"] == "1" {
			// a canary pod restarts twice: the canary pauses itself
			for _, p := range s.Store.Pods() {
				if letterOfPod(p) == letterOfTpl(&cr.Spec.Template) && isDaemonPod(p, def.NS, def.Name) && !terminating(p) {
					s.kSettle(p)
					if pp := s.Store.GetPod(p.Namespace, p.Name); pp != nil && len(pp.Status.ContainerStatuses) > 0 {
						s.kRestart(pp, "Error")
						s.kRestart(s.Store.GetPod(p.Namespace, p.Name), "Error")
						s.kSettle(s.Store.GetPod(p.Namespace, p.Name))
						keep = p.Name
						s.Stats.NonVacuous["C08.auto-paused"]++
						break
					}
				}
			}
			if keep != "" {
				s.Round(r)
				paused = true
			}
		}
		if !paused {
			if how == "cli" {
				s.RunCLI("canary-pause", key)
			} else {
				s.userAnnotate(def.NS, def.Name, edsv1.ExtendedDaemonSetCanaryPausedAnnotationKey, "true")
				s.userAnnotate(def.NS, def.Name, edsv1.ExtendedDaemonSetCanaryUnpausedAnnotationKey, "-")
			}
		}
		s.Round(r)
		letter := letterOfTpl(&cr.Spec.Template)
		removed := 0
		for _, p := range s.Store.Pods() {
			if letterOfPod(p) == letter && isDaemonPod(p, def.NS, def.Name) && r.IntN(3) != 0 && p.Name != keep {
				s.Store.Remove(objKey{KPod, p.Namespace, p.Name}) // e.g. evicted and collected
				removed++
			}
		}
		s.Round(r)
		s.Round(r)
		if keep != "" && r.IntN(2) == 0 {
			// the user switches auto-pause off before unpausing the canary that had paused itself
			if e2 := s.Store.GetEDS(def.NS, def.Name); e2 != nil && e2.Spec.Strategy.Canary != nil && e2.Spec.Strategy.Canary.AutoPause != nil {
				e2.Spec.Strategy.Canary.AutoPause.Enabled = edsv1.NewBool(false)
				s.Store.ForceUpdate(e2)
				s.logf("env user.autopause-off")
				s.Stats.NonVacuous["C08.autopause-switched-off"]++
			}
		}
		// unpause
		if pick(r, "cli", "annotation") == "cli" {
			if t := s.RunCLI("canary-unpause", key); t.Err != nil {
				s.userAnnotate(def.NS, def.Name, edsv1.ExtendedDaemonSetCanaryPausedAnnotationKey, "false")
				s.userAnnotate(def.NS, def.Name, edsv1.ExtendedDaemonSetCanaryUnpausedAnnotationKey, "true")
			}
		} else {
			s.userAnnotate(def.NS, def.Name, edsv1.ExtendedDaemonSetCanaryPausedAnnotationKey, "false")
			s.userAnnotate(def.NS, def.Name, edsv1.ExtendedDaemonSetCanaryUnpausedAnnotationKey, "true")
		}
		for i := 0; i < 8; i++ {
			s.step++
			s.Round(r)
		}
		e = s.Store.GetEDS(def.NS, def.Name)
		if e == nil || e.Status.Canary == nil || e.Status.Canary.ReplicaSet != cr.Name {
			break
		}
		cr = s.Store.GetERS(def.NS, cr.Name)
		if cr == nil || ersCondTrue(&cr.Status, edsv1.ConditionTypeCanaryFailed) {
			break
		}
		s.Stats.NonVacuous["C08.unpause"]++
		lastEDSOK := false
		for i := len(s.tasks) - 1; i >= 0; i-- {
			if t := s.tasks[i]; t.Ctrl == CtrlEDS && t.Key == key {
				lastEDSOK = t.Done && t.Err == nil && t.Panic == nil // (a reconcile that reports an error, e.g. too few valid canary nodes, writes no status)
				break
			}
		}
		if lastEDSOK && annTrue(e.Annotations, edsv1.ExtendedDaemonSetCanaryUnpausedAnnotationKey) && !annTrue(e.Annotations, edsv1.ExtendedDaemonSetCanaryPausedAnnotationKey) && (e.Status.State == edsv1.ExtendedDaemonSetStatusStateCanaryPaused || ersCondTrue(&cr.Status, edsv1.ConditionTypeCanaryPaused)) {
			s.Violate("C08", "canary-resume", "state-stuck", "8 rounds after the canary was unpaused (canary-unpaused=true, canary-paused not true, not failed) the state is %q and the replica set's Canary-Paused condition is %v", e.Status.State, ersCondTrue(&cr.Status, edsv1.ConditionTypeCanaryPaused))
		}
		for _, cn := range e.Status.Canary.Nodes {
			n := s.Store.GetNode(cn)
			if n == nil || !eligibleSpec(n, &cr.Spec.Template.Spec) {
				continue
			}
			has := false
			for _, p := range s.Store.Pods() {
				if podNode(p) == cn && isDaemonPod(p, def.NS, def.Name) && letterOfPod(p) == letter && !terminating(p) {
					has = true
				}
			}
			if !has {
				sig := "some-pods-left"
				if ersCondTrue(&cr.Status, edsv1.ConditionTypeCanaryPaused) {
					sig = "condition-stuck"
				}
				s.Violate("C08", "canary-resume", sig, "8 rounds after the canary was unpaused, canary node %s still has no pod of the canary template (Canary-Paused condition=%v, state=%s, %d canary pods had been removed while paused)", cn, ersCondTrue(&cr.Status, edsv1.ConditionTypeCanaryPaused), e.Status.State, removed)
				break
			}
		}
	}
	// lift everything: the rollout must complete
	s.Quiesce()
}

func init() {
	register(&Profile{Name: "C08", Decide: []string{"C08"}, Quick: 1500, Thorough: 80000, Gen: genC08, Body: bodyC08,
		NonVacuous: []string{"C08.paused-or-frozen-sync", "C08.paused-canary-sync", "C08.unpause", "C08.hold-ru-paused", "C08.hold-frozen", "C08.paused-wait-auto", "C08.paused-wait-cli", "C08.paused-wait-annotation", "C08.paused-wait-repause"}, Chunk: 50,
		Rule: "Rollout states reached by seeded history with every combination and toggling order of the rolling-update-paused, rollout-frozen, canary-paused and canary-unpaused annotations (user edits and kubectl-eds commands); per-sync monitors judge what a sync may create or delete while they are set; then one of: the rolling update is held paused (empty eligible nodes must still get a pod), held frozen, or a paused canary loses some of its pods and is unpaused (it must resume); finally all holds are lifted and the rollout must complete within the convergence bound. " + histRule})
}

// ---------------------------------------------------------------------------------------
// C04: confinement monitors ride on the history; the body adds M4 (the rest of the fleet keeps
// being served while a canary is held) and M5 (canary label during and after the canary).

const canaryLabel = edsv1.ExtendedDaemonSetReplicaSetCanaryLabelKey

func genC04(r *rand.Rand, tier string, idx int) *World {
	o := histOpts{maxNodes: 6, pCanary: 1, fancy: []float64{0, 0.3}, faults: idx%2 == 1, pctReplicas: true, c02: true}
	if tier == "thorough" {
		o.maxNodes = 12
	}
	w := genHistory(r, tier, o)
	w.Extra["c02prop"] = "C04"
	w.Extra["c04end"] = pick(r, "hold", "hold", "promote", "revert", "promote-dirty", "promote-dirty")
	w.Cfg.StrategyEdits = chance(r, 0.5)
	if c := w.EDS[0].Strategy.Canary; c != nil && chance(r, 0.2) {
		c.Replicas = pick(r, "0", "0%") // a canary that owns no node
		w.Cfg.KubeletFaults = true       // Failed pods: clean-up work on any node
	}
	w.Cfg.EndCanary = "validate"
	return w
}

func bodyC04(s *Sim) {
	s.Setup()
	s.Chaos()
	s.Drain()
	def := s.W.EDS[0]
	r := subRng(s.Seed, "c04hold")
	s.W.Cfg.KubeletFaults, s.W.Cfg.NodeChurn = false, false
	e := s.Store.GetEDS(def.NS, def.Name)
	if s.W.Extra["c04end"] == "hold" && e != nil && e.Spec.Strategy.Canary != nil && e.Status.Canary != nil {
		cr := s.Store.GetERS(def.NS, e.Status.Canary.ReplicaSet)
		if cr != nil && !ersCondTrue(&cr.Status, edsv1.ConditionTypeCanaryFailed) {
			// hold the canary, lift rolling-update holds, let a node join
			s.userAnnotate(def.NS, def.Name, edsv1.ExtendedDaemonSetCanaryPausedAnnotationKey, "true")
			s.userAnnotate(def.NS, def.Name, edsv1.ExtendedDaemonSetCanaryUnpausedAnnotationKey, "-")
			s.userAnnotate(def.NS, def.Name, edsv1.ExtendedDaemonSetCanaryValidAnnotationKey, "-")
			s.userAnnotate(def.NS, def.Name, edsv1.ExtendedDaemonSetRolloutFrozenAnnotationKey, "-")
			s.userAnnotate(def.NS, def.Name, edsv1.ExtendedDaemonSetRollingUpdatePausedAnnotationKey, "-")
			for _, nd := range s.W.SpareNodes {
				if s.Store.GetNode(nd.Name) == nil {
					_, _ = s.Store.CreateObj(nd.Object())
					s.Probe("c04.node-joined-during-canary")
					break
				}
			}
			if len(e.Status.Canary.Nodes) >= 1 && r.IntN(3) == 0 {
				// the pod of a canary node is replaced by a fresh, not yet labelled one while the replica set
				// already reports all its pods ready; the first attempt to label it is rejected
				last := e.Status.Canary.Nodes[len(e.Status.Canary.Nodes)-1]
				if ln := s.Store.GetNode(last); ln != nil {
					for _, p := range s.Store.Pods() {
						if podNode(p) == last && isDaemonPod(p, def.NS, def.Name) {
							s.Store.Remove(objKey{KPod, p.Namespace, p.Name})
						}
					}
					s.injectPod(cr, ln, PodState{Kind: "ready", AgeSec: 20, Suffix: "-fresh"})
					s.Advance(s.maxFrequency() + time.Second)
					if _, fired := s.RunTaskWithFault(CtrlERS, types.NamespacedName{Namespace: cr.Namespace, Name: cr.Name}, "reject", func(c *Call) bool { return c.Verb == "patch" && c.Kind == KPod }); fired {
						s.Stats.NonVacuous["C04.first-label-patch-rejected"]++
					}
				}
			} else if len(e.Status.Canary.Nodes) >= 2 && r.IntN(3) != 0 {
				// the canary node listed first leaves the cluster; the pod on the one listed last is replaced
				// by a fresh one that has not been labelled yet
				first, last := e.Status.Canary.Nodes[0], e.Status.Canary.Nodes[len(e.Status.Canary.Nodes)-1]
				if ln := s.Store.GetNode(last); ln != nil && s.Store.GetNode(first) != nil {
					for _, p := range s.Store.Pods() {
						if podNode(p) == first || (podNode(p) == last && isDaemonPod(p, def.NS, def.Name)) {
							s.Store.Remove(objKey{KPod, p.Namespace, p.Name})
						}
					}
					s.Store.Remove(objKey{KNode, "", first})
					s.injectPod(cr, ln, PodState{Kind: "ready", AgeSec: 20, Suffix: "-fresh"})
					s.Stats.NonVacuous["C04.canary-node-gone-unlabelled-pod"]++
				}
			}
			for i := 0; i < s.c02Bound(); i++ {
				s.step++
				s.Round(r)
			}
			e = s.Store.GetEDS(def.NS, def.Name)
			if e != nil && e.Status.Canary != nil && e.Status.Canary.ReplicaSet == cr.Name {
				act := s.Store.GetERS(def.NS, e.Status.ActiveReplicaSet)
				cr = s.Store.GetERS(def.NS, cr.Name)
				if act != nil && cr != nil && !ersCondTrue(&cr.Status, edsv1.ConditionTypeCanaryFailed) {
					s.Stats.NonVacuous["C04.held"]++
					canary := map[string]bool{}
					for _, n := range e.Status.Canary.Nodes {
						canary[n] = true
					}
					al, cl := letterOfTpl(&act.Spec.Template), letterOfTpl(&cr.Spec.Template)
					for _, n := range s.Store.Nodes() {
						if canary[n.Name] || !eligibleSpec(n, &act.Spec.Template.Spec) {
							continue
						}
						ok := false
						for _, p := range s.Store.Pods() {
							if isDaemonPod(p, def.NS, def.Name) && podNode(p) == n.Name && letterOfPod(p) == al && podReady(p) && !terminating(p) {
								ok = true
							}
							if isDaemonPod(p, def.NS, def.Name) && podNode(p) == n.Name && letterOfPod(p) == cl && cl != al && !terminating(p) {
								s.Violate("C04", "M4", "new-template-outside", "while the canary is held, node %s (not a canary node) runs pod %s of the new template", n.Name, p.Name)
							}
						}
						if !ok {
							s.Violate("C04", "M4", "not-served", "canary held for %d rounds: eligible non-canary node %s has no Ready pod of the active template %s", s.c02Bound(), n.Name, al)
						}
					}
					for _, p := range s.Store.Pods() {
						if isDaemonPod(p, def.NS, def.Name) && canary[podNode(p)] && p.Labels[edsv1.ExtendedDaemonSetReplicaSetNameLabelKey] == cr.Name && !terminating(p) {
							if p.Labels[canaryLabel] != edsv1.ExtendedDaemonSetReplicaSetCanaryLabelValue {
								s.Violate("C04", "M5", "label-missing", "canary pod %s on canary node %s does not carry the canary label", p.Name, podNode(p))
							}
						}
					}
				}
			}
		}
	}
	if s.W.Extra["c04end"] == "revert" && e != nil && e.Spec.Strategy.Canary != nil && e.Status.ActiveReplicaSet != "" {
		// A canary is promoted; before its rollout is over (and more than five minutes after the
		// old replica set had become active) the template is reverted: the old replica set, which
		// still has pods, is the canary now, gets the canary label on its canary nodes and is
		// promoted again.
		key := types.NamespacedName{Namespace: def.NS, Name: def.Name}
		if act := s.Store.GetERS(def.NS, e.Status.ActiveReplicaSet); act != nil {
			prev := letterOfTpl(&act.Spec.Template)
			for _, k := range []string{edsv1.ExtendedDaemonSetCanaryPausedAnnotationKey, edsv1.ExtendedDaemonSetRolloutFrozenAnnotationKey, edsv1.ExtendedDaemonSetRollingUpdatePausedAnnotationKey} {
				s.userAnnotate(def.NS, def.Name, k, "-")
			}
			if e.Status.Canary == nil || letterOfTpl(&e.Spec.Template) == prev {
				for _, l := range sortedKeys(def.Templates) {
					if l != prev {
						s.userSetTemplate(def.NS, def.Name, l)
						break
					}
				}
				s.Round(r)
				s.Round(r)
			}
			s.RunCLI("canary-validate", key)
			s.Round(r)
			s.Advance(6 * time.Minute)
			s.Round(r)
			s.userSetTemplate(def.NS, def.Name, prev)
			s.Round(r)
			s.Round(r)
			s.Stats.NonVacuous["C04.reverted"]++
		}
	}
	if s.W.Extra["c04end"] == "promote-dirty" && e != nil && e.Spec.Strategy.Canary != nil && e.Status.Canary != nil {
		// The canary is validated while one of its nodes runs a surplus pod of it; the first syncs of the
		// promoted replica set fail to delete that pod. The labels of the former canary pods must go all
		// the same (the window for that is short).
		key := types.NamespacedName{Namespace: def.NS, Name: def.Name}
		cr := s.Store.GetERS(def.NS, e.Status.Canary.ReplicaSet)
		if cr != nil && !ersCondTrue(&cr.Status, edsv1.ConditionTypeCanaryFailed) && len(e.Status.Canary.Nodes) > 0 {
			for _, k := range []string{edsv1.ExtendedDaemonSetCanaryPausedAnnotationKey, edsv1.ExtendedDaemonSetRolloutFrozenAnnotationKey, edsv1.ExtendedDaemonSetRollingUpdatePausedAnnotationKey} {
				s.userAnnotate(def.NS, def.Name, k, "-")
			}
			s.Round(r)
			s.Round(r)
			if n := s.Store.GetNode(e.Status.Canary.Nodes[0]); n != nil {
				s.injectPod(cr, n, PodState{Kind: "ready", AgeSec: 30, Suffix: "-dup"})
			}
			s.RunCLI("canary-validate", key)
			s.RunTask(CtrlEDS, key)
			ck := types.NamespacedName{Namespace: def.NS, Name: cr.Name}
			verb := pick(r, "delete", "patch") // the clean-up deletion fails, or the removal of the label itself
			s.Probe("c04.promote-dirty-" + verb)
			for i := 0; i < 3; i++ {
				s.Advance(s.maxFrequency() + time.Second) // past the resync gate of the last canary sync
				_, fired := s.RunTaskWithFault(CtrlERS, ck, "reject", func(c *Call) bool { return c.Verb == verb && c.Kind == KPod })
				if fired {
					s.Stats.NonVacuous["C04.promoted-with-failing-"+verb]++
				}
				if verb == "patch" && fired {
					break // one failed attempt; the next syncs have to try again
				}
			}
		}
	}
	s.Quiesce()
	// after promotion no pod of the active replica set carries the canary label
	e = s.Store.GetEDS(def.NS, def.Name)
	if e != nil && !s.canaryBusy() {
		if ok, _, _ := s.convergedEDS(def); ok {
			s.Stats.NonVacuous["C04.promoted"]++
			for _, p := range s.Store.Pods() {
				if isDaemonPod(p, def.NS, def.Name) && p.Labels[edsv1.ExtendedDaemonSetReplicaSetNameLabelKey] == e.Status.ActiveReplicaSet {
					if _, has := p.Labels[canaryLabel]; has {
						s.Violate("C04", "M5", "label-left", "pod %s of the active replica set still carries the canary label at quiescence", p.Name)
					}
				}
			}
		}
	}
}

func init() {
	register(&Profile{Name: "C04", Decide: []string{"C04"}, Quick: 1500, Thorough: 80000, Gen: genC04, Body: bodyC04,
		NonVacuous: []string{"C04.canary-sync", "C04.active-with-canary", "C04.canary-status", "C04.held", "C04.promoted"}, Chunk: 50,
		Rule: "Canary histories (replicas as number or percent, a second template change while a canary runs, node churn, pause/unpause/fail, all three replica-set roles and the ExtendedDaemonSet reconciling against one store in any order, stalls across role changes); per-sync confinement monitors; then either the canary is held while a node joins and the rest of the fleet must be served by the active template with the canary pods labelled, or it is promoted and the label must be gone at quiescence. " + histRule})
}

// ---------------------------------------------------------------------------------------
// C05: a canary is started, then a focused chaos of pause/unpause/validate/fail actions,
// restarts, replica-set syncs and ExtendedDaemonSet reconciles around the boundary instants,
// then the clock passes the end of the duration.

func genC05(r *rand.Rand, tier string, idx int) *World {
	o := histOpts{maxNodes: 4, pCanary: 1, fancy: []float64{0}, faults: idx%2 == 1}
	w := genHistory(r, tier, o)
	c := w.EDS[0].Strategy.Canary
	mode := c.ValidationMode
	if mode == "" {
		mode = string(w.DefaultValidationMode)
	}
	if mode != "manual" {
		c.Duration = pick(r, "1m", "3m", "10m")
		c.NoRestartsDuration = pick(r, "", "0s", "1m", "5m")
	}
	c.NodeSelector = nil
	if chance(r, 0.5) {
		for _, t := range w.EDS[0].Templates {
			t.Side = true // two containers: which one restarted last matters for noRestartsDuration
		}
	}
	w.Cfg.TemplateEdits = chance(r, 0.2)
	w.Cfg.NodeChurn = false
	w.Cfg.AnnotationEdits = true
	w.Cfg.ModeEdits = chance(r, 0.3)
	w.Cfg.CLI = true
	w.Cfg.KubeletFaults = chance(r, 0.6)
	w.Cfg.Stall = true
	w.Cfg.ChaosSteps = pick(r, 15, 30, 60, 100)
	w.Extra["c05"] = "1"
	w.Cfg.PatchDenied = chance(r, 0.1)
	w.Extra["dropActive"] = pick(r, "0", "0", "0", "1", "2")
	return w
}

func bodyC05(s *Sim) {
	s.Setup()
	def := s.W.EDS[0]
	key := types.NamespacedName{Namespace: def.NS, Name: def.Name}
	s.bootstrap(def)
	for i := 0; i < 2+len(s.W.Nodes); i++ {
		s.Round(s.rngEnv)
	}
	s.userSetTemplate(def.NS, def.Name, "B")
	s.RunTask(CtrlEDS, key)
	s.RunTask(CtrlEDS, key)
	s.Chaos()
	if s.W.Extra["dropActive"] == "2" {
		// the active replica set is deleted while a finalizer holds it: it is Terminating but still exists
		if e := s.Store.GetEDS(def.NS, def.Name); e != nil && e.Status.ActiveReplicaSet != "" {
			if r := s.Store.GetERS(def.NS, e.Status.ActiveReplicaSet); r != nil {
				now := metav1.NewTime(s.Now())
				r.DeletionTimestamp = &now
				r.Finalizers = append(r.Finalizers, "example.com/hold") // held by a finalizer nobody removes: Terminating for the rest of the run
				s.Store.ForceUpdate(r)
			}
		}
	}
	if s.W.Extra["dropActive"] == "1" {
		if e := s.Store.GetEDS(def.NS, def.Name); e != nil && e.Status.ActiveReplicaSet != "" {
			s.Store.Remove(objKey{KERS, def.NS, e.Status.ActiveReplicaSet})
		}
	}
	r := subRng(s.Seed, "c05end")
	// a two-container canary pod whose less restarted container restarted last
	if e := s.Store.GetEDS(def.NS, def.Name); e != nil && e.Status.Canary != nil && r.IntN(2) == 0 {
		for _, p := range s.Store.Pods() {
			if isDaemonPod(p, def.NS, def.Name) && p.Labels[edsv1.ExtendedDaemonSetReplicaSetNameLabelKey] == e.Status.Canary.ReplicaSet && !terminating(p) && len(p.Spec.Containers) == 2 {
				s.kSettle(p)
				if pp := s.Store.GetPod(p.Namespace, p.Name); pp != nil && len(pp.Status.ContainerStatuses) == 2 {
					s.kRestartContainer(pp, 0, "Error")
					s.kRestartContainer(s.Store.GetPod(p.Namespace, p.Name), 0, "Error")
					s.Advance(time.Duration(20+r.IntN(60)) * time.Second)
					s.kRestartContainer(s.Store.GetPod(p.Namespace, p.Name), 1, "Error")
					s.kSettle(s.Store.GetPod(p.Namespace, p.Name))
					s.Advance(s.maxFrequency() + time.Second)
					s.RunTask(CtrlERS, types.NamespacedName{Namespace: def.NS, Name: e.Status.Canary.ReplicaSet})
				}
				break
			}
		}
	}
	// two canary pods restarted at different times, the one on the canary node listed first last
	if e := s.Store.GetEDS(def.NS, def.Name); e != nil && e.Status.Canary != nil && len(e.Status.Canary.Nodes) >= 2 && r.IntN(2) == 0 {
		var ps []*corev1.Pod
		for _, n := range e.Status.Canary.Nodes {
			for _, p := range s.Store.Pods() {
				if isDaemonPod(p, def.NS, def.Name) && podNode(p) == n && p.Labels[edsv1.ExtendedDaemonSetReplicaSetNameLabelKey] == e.Status.Canary.ReplicaSet && !terminating(p) {
					ps = append(ps, p)
					break
				}
			}
		}
		if len(ps) >= 2 {
			for i := len(ps) - 1; i >= 0; i-- {
				s.kSettle(ps[i])
				if pp := s.Store.GetPod(ps[i].Namespace, ps[i].Name); pp != nil {
					s.kRestart(pp, "Error")
					s.Advance(time.Duration(20+r.IntN(60)) * time.Second)
				}
			}
			for _, p := range ps {
				if pp := s.Store.GetPod(p.Namespace, p.Name); pp != nil {
					s.kSettle(pp)
				}
			}
			s.Stats.NonVacuous["C05.two-restarted-canary-pods"]++
			s.Advance(s.maxFrequency() + time.Second)
			s.RunTask(CtrlERS, types.NamespacedName{Namespace: def.NS, Name: e.Status.Canary.ReplicaSet})
		}
	}
	if r.IntN(3) == 0 {
		// the canary is failed, its replica set is synced as a leftover, and then the very same template
		// is applied again: the replica set matches spec.template once more, still marked Canary-Failed
		if e := s.Store.GetEDS(def.NS, def.Name); e != nil && e.Status.Canary != nil {
			s.RunCLI("canary-fail", key)
		}
		s.RunTask(CtrlEDS, key)
		s.RunTask(CtrlEDS, key)
		s.Advance(s.maxFrequency() + time.Second)
		for _, rs := range s.Store.ERSs() {
			s.RunTask(CtrlERS, types.NamespacedName{Namespace: rs.Namespace, Name: rs.Name})
		}
		if e := s.Store.GetEDS(def.NS, def.Name); e != nil && e.Status.Canary == nil && letterOfTpl(&e.Spec.Template) == "A" {
			if fr := s.ersByLetter(def, "B"); fr != nil && ersCondTrue(&fr.Status, edsv1.ConditionTypeCanaryFailed) {
				s.userSetTemplate(def.NS, def.Name, "B")
				s.Stats.NonVacuous["C05.failed-template-applied-again"]++
			}
		}
	}
	// pass the end of the duration with whatever pause/validation/failure state the chaos left
	for i := 0; i < 3; i++ {
		ds := s.advanceCandidates()
		s.Advance(ds[r.IntN(len(ds))])
		if r.IntN(2) == 0 {
			for _, rs := range s.Store.ERSs() {
				s.RunTask(CtrlERS, types.NamespacedName{Namespace: rs.Namespace, Name: rs.Name})
			}
		}
		s.RunTask(CtrlEDS, key)
	}
	s.Advance(11 * time.Minute)
	s.RunTask(CtrlEDS, key)
	s.RunTask(CtrlEDS, key)
}

func init() {
	register(&Profile{Name: "C05", Decide: []string{"C05"}, Quick: 2500, Thorough: 120000, Gen: genC05, Body: bodyC05,
		NonVacuous: []string{"C05.switch"}, Chunk: 50,
		Rule: "A canary is started through the real reconcilers (strategy auto or manual, duration 1-10 min, noRestartsDuration unset/0/positive); then a focused seeded phase of kubectl-eds canary pause/unpause/validate/fail, user edits of the canary-paused / canary-unpaused / canary-valid annotations, container restarts, replica-set syncs, ExtendedDaemonSet reconciles, stalls and clock jumps to boundary instants (creation+duration, last restart+noRestartsDuration, each at -1s, exactly, +1ns, +1s), optionally the recorded active replica set is deleted (at once, or held by a finalizer so that it stays Terminating); in a third of the runs the canary is failed, its replica set synced as a leftover and the same template applied again; finally the clock passes the end of the duration and the ExtendedDaemonSet is reconciled. Every change of status.activeReplicaSet is judged against the promotion rule. " + histRule})
}

// C13: template edit histories, with every third run a failed-canary history (clean-up guards
// of a failed replica set).
func init() {
	hp := histProfile("C13", []string{"C13"}, 1500, 60000, histOpts{maxNodes: 4, pCanary: 0.5, fancy: []float64{0.3, 0.7}, faults: true, someOverrides: true}, "C13.create", "C13.delete", "C13.podtemplate")
	gen := hp.Gen
	hp.Gen = func(r *rand.Rand, tier string, idx int) *World {
		if idx%3 == 2 {
			w := genC07(r, tier, idx)
			w.Extra["body"] = "c07"
			return w
		}
		w := gen(r, tier, idx)
		if chance(r, 0.25) {
			w.Extra["staleHash"] = pick(r, "A", "B", "C", "x")
		}
		if chance(r, 0.25) {
			w.Extra["templateName"] = "agent"
			w.Extra["namedEdits"] = "1"
		}
		w.Cfg.LabelEdits = chance(r, 0.3)
		w.Cfg.PodTplEdits = chance(r, 0.3)
		if chance(r, 0.12) {
			// templates pasted from a running pod: they carry the hash annotation of some earlier template
			for _, e := range w.EDS {
				for _, t := range e.Templates {
					t.PastedHash = true
				}
			}
		}
		if chance(r, 0.25) {
			// every template also exists in a second spelling of its memory request: another template
			// for the controller (new hash, new replica set, new PodTemplate content), an equal one semantically
			for _, e := range w.EDS {
				for _, l := range sortedKeys(e.Templates) {
					e.Templates[l].Mem = "128Mi"
					c := *e.Templates[l]
					c.Mem = "134217728"
					e.Templates[l+"~"] = &c
				}
			}
			w.Extra["respelled"] = "1"
		}
		return w
	}
	hp.Body = func(s *Sim) {
		if s.W.Extra["body"] == "c07" {
			bodyC07(s)
			return
		}
		s.Setup()
		s.Chaos()
		if !s.W.Cfg.NoQuiesce {
			s.Quiesce()
		}
	}
	register(hp)
}

// C01 and C09: seeded histories alternate with state injection.
func mixProfile(hp *Profile, inj func(*rand.Rand, string, int) *World, bodies map[string]func(*Sim), extraRule string) *Profile {
	gen := hp.Gen
	hp.Gen = func(r *rand.Rand, tier string, idx int) *World {
		if idx%2 == 0 {
			return inj(r, tier, idx)
		}
		return gen(r, tier, idx/2) // keeps the alternation of fault-free and fault-injecting histories
	}
	hp.Body = func(s *Sim) {
		if b := bodies[s.W.Extra["body"]]; b != nil {
			b(s)
			return
		}
		s.Setup()
		s.Chaos()
		if !s.W.Cfg.NoQuiesce {
			s.Quiesce()
		}
	}
	hp.Rule = extraRule + " Odd run indices: " + hp.Rule
	return hp
}

func init() {
	register(mixProfile(histProfile("C01", []string{"C01"}, 3000, 120000, histOpts{maxNodes: 6, pCanary: 0.4, fancy: []float64{0.3, 0.7}, faults: true, stratEdits: true}, "C01.create", "C01.dup", "C01.ineligible"),
		genC01Inject, map[string]func(*Sim){"c01inject": bodyC01Inject},
		"Even run indices: state injection - 1-8 (thorough 1-16) nodes with labels/taints from the vocabulary, a template with selector/affinity/tolerations, per node a multiset of 0-3 daemon pods (phase Pending/Running/Failed/Unknown/creating, scheduled or not, Terminating or not, of the old or the new replica set or adopted from the old DaemonSet, equal or different ages), canary block present or absent, both node-assignment modes; then syncs of the new and the old replica set in drawn order with seeded map order, parallel-call interleaving and API faults."))
	register(mixProfile(histProfile("C09", []string{"C09"}, 3000, 120000, histOpts{maxNodes: 8, pCanary: 0.2, fancy: []float64{0, 0.3}, faults: true}, "C09.creates", "C09.spacing", "C09.update-del"),
		genC09Inject, map[string]func(*Sim){"c09inject": bodyC09Inject},
		"Even run indices: 0-40 nodes lacking a pod, slowStartIntervalDuration 1s-5m, additive increase as number or percent, maxParallelPodCreation 1-250, reconcileFrequency 1s-1m; 5-20 reconcile requests at instants drawn from the boundary set (slot edges of the Active condition and LastFullSync+frequency, each at -1s, exactly, +1ns, +1s, plus small steps), a template change half-way in a third of the runs (in a fifth a canary that is validated or failed right after a sync of its replica set, with the replica sets requested again at the same instant), partial kubelet progress in between, rejects and API clock skew in a third; in an eighth of the larger clusters the replica set has been active for 26-51 simulated days with slow start practically off (increase 1000 per second, or 100% per 10 ms) when a batch of pods is evicted."))
}

func init() {
	register(mixProfile(histProfile("C14", []string{"C14"}, 3000, 120000, histOpts{maxNodes: 6, pCanary: 0.5, fancy: []float64{0, 0.3}, faults: true, c02: true}, "C14.eds", "C14.ers", "C14.quiescent"),
		genC14Inject, map[string]func(*Sim){"c14inject": bodyC14Inject, "c14paused": bodyC14Paused},
		"Even run indices: state injection for the status function - active, canary and an optional third replica set get drawn statuses (0 <= available <= ready <= current <= desired <= nodes), the canary one Canary-Paused / Canary-Failed conditions (absent/True/False, reason from the vocabulary), the ExtendedDaemonSet the canary-paused / canary-paused-reason / canary-unpaused / rolling-update-paused / rollout-frozen annotations in every value; then 1-2 real ExtendedDaemonSet reconciles judged by the status monitors. One even index in eight: the whole system with a canary paused before its replica set has taken its nodes over (optionally widened while paused), run until nothing moves, then status current/ready/available against the daemon pods that exist."))
}
