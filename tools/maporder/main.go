// maporder rewrites every `range` over a map in the non-test Go files of the repository's
// controller packages into a range over simorder.Keys(m, site), and emits a `go build
// -overlay` file. Nothing is written into the repository.
//
//	maporder -repo /repo -out <dir>     writes <dir>/overlay.json, <dir>/sites.json, <dir>/*.go
package main

import (
	"bytes"
	"encoding/json"
	"flag"
	"fmt"
	"go/ast"
	"go/format"
	"go/token"
	"go/types"
	"os"
	"path/filepath"
	"sort"
	"strconv"
	"strings"

	"golang.org/x/tools/go/ast/astutil"
	"golang.org/x/tools/go/packages"
)

type site struct {
	Site      string `json:"site"`
	Rewritten bool   `json:"rewritten"`
	Why       string `json:"why,omitempty"`
}

func simpleOperand(e ast.Expr) bool {
	switch x := e.(type) {
	case *ast.Ident:
		return true
	case *ast.SelectorExpr:
		return simpleOperand(x.X)
	case *ast.ParenExpr:
		return simpleOperand(x.X)
	}
	return false
}

func main() {
	repo := flag.String("repo", "/repo", "repository root")
	out := flag.String("out", "", "output directory")
	flag.Parse()
	if *out == "" {
		fmt.Fprintln(os.Stderr, "maporder: -out required")
		os.Exit(2)
	}
	if err := os.MkdirAll(*out, 0o755); err != nil {
		panic(err)
	}
	env := []string{}
	for _, e := range os.Environ() {
		if strings.HasPrefix(e, "GOFLAGS=") {
			continue
		}
		env = append(env, e)
	}
	env = append(env, "GOFLAGS=", "GOWORK="+filepath.Join(*repo, "go.work"))
	cfg := &packages.Config{
		Mode:       packages.NeedName | packages.NeedFiles | packages.NeedCompiledGoFiles | packages.NeedSyntax | packages.NeedTypes | packages.NeedTypesInfo | packages.NeedImports | packages.NeedDeps,
		Dir:        *repo,
		Env:        env,
		BuildFlags: []string{"-tags=verif"},
	}
	pkgs, err := packages.Load(cfg,
		"github.com/DataDog/extendeddaemonset/controllers/...",
		"github.com/DataDog/extendeddaemonset/pkg/controller/...",
		"github.com/DataDog/extendeddaemonset/pkg/plugin/canary",
		"github.com/DataDog/extendeddaemonset/pkg/plugin/pause",
		"github.com/DataDog/extendeddaemonset/pkg/plugin/freeze",
		"github.com/DataDog/extendeddaemonset/api/v1alpha1",
	)
	if err != nil {
		fmt.Fprintln(os.Stderr, "maporder: load:", err)
		os.Exit(2)
	}
	bad := false
	for _, p := range pkgs {
		for _, e := range p.Errors {
			fmt.Fprintln(os.Stderr, "maporder:", p.PkgPath, e)
			bad = true
		}
	}
	if bad {
		os.Exit(2)
	}
	overlay := map[string]string{}
	var sites []site
	n := 0
	for _, p := range pkgs {
		for i, f := range p.Syntax {
			fname := p.CompiledGoFiles[i]
			if strings.HasSuffix(fname, "_test.go") || !strings.HasPrefix(fname, *repo) || strings.Contains(fname, "zz_generated") {
				continue
			}
			rel, _ := filepath.Rel(*repo, fname)
			changed := false
			astutil.Apply(f, func(c *astutil.Cursor) bool {
				rs, ok := c.Node().(*ast.RangeStmt)
				if !ok {
					return true
				}
				tv := p.TypesInfo.TypeOf(rs.X)
				if tv == nil {
					return true
				}
				if _, isMap := tv.Underlying().(*types.Map); !isMap {
					return true
				}
				pos := p.Fset.Position(rs.Pos())
				st := site{Site: rel + ":" + strconv.Itoa(pos.Line)}
				switch {
				case rs.Key == nil:
					st.Why = "no iteration variables"
				case rs.Tok != token.DEFINE:
					st.Why = "assignment form"
				case !simpleOperand(rs.X):
					st.Why = "operand is not a plain variable"
				}
				if st.Why != "" {
					sites = append(sites, st)
					return true
				}
				keyIdent, _ := rs.Key.(*ast.Ident)
				if keyIdent == nil {
					st.Why = "key is not an identifier"
					sites = append(sites, st)
					return true
				}
				if keyIdent.Name == "_" {
					keyIdent = ast.NewIdent("simorderKey")
				}
				call := &ast.CallExpr{
					Fun:  &ast.SelectorExpr{X: ast.NewIdent("simorder"), Sel: ast.NewIdent("Keys")},
					Args: []ast.Expr{rs.X, &ast.BasicLit{Kind: token.STRING, Value: strconv.Quote(st.Site)}},
				}
				var pre []ast.Stmt
				if v, ok := rs.Value.(*ast.Ident); ok && v != nil && v.Name != "_" {
					pre = append(pre, &ast.AssignStmt{
						Lhs: []ast.Expr{ast.NewIdent(v.Name)},
						Tok: token.DEFINE,
						Rhs: []ast.Expr{&ast.IndexExpr{X: rs.X, Index: ast.NewIdent(keyIdent.Name)}},
					})
				} else if rs.Value != nil {
					if _, isIdent := rs.Value.(*ast.Ident); !isIdent {
						st.Why = "value is not an identifier"
						sites = append(sites, st)
						return true
					}
				}
				rs.Key = ast.NewIdent("_")
				rs.Value = keyIdent
				rs.X = call
				rs.Body.List = append(pre, rs.Body.List...)
				st.Rewritten = true
				sites = append(sites, st)
				changed = true
				return true
			}, nil)
			if !changed {
				continue
			}
			astutil.AddImport(p.Fset, f, "verif/sim/simorder")
			var buf bytes.Buffer
			if err := format.Node(&buf, p.Fset, f); err != nil {
				fmt.Fprintln(os.Stderr, "maporder: print:", fname, err)
				os.Exit(2)
			}
			n++
			dst := filepath.Join(*out, fmt.Sprintf("f%03d_%s", n, filepath.Base(fname)))
			if err := os.WriteFile(dst, buf.Bytes(), 0o644); err != nil {
				panic(err)
			}
			overlay[fname] = dst
		}
	}
	sort.Slice(sites, func(i, j int) bool { return sites[i].Site < sites[j].Site })
	ob, _ := json.MarshalIndent(map[string]interface{}{"Replace": overlay}, "", " ")
	if err := os.WriteFile(filepath.Join(*out, "overlay.json"), ob, 0o644); err != nil {
		panic(err)
	}
	sb, _ := json.MarshalIndent(sites, "", " ")
	if err := os.WriteFile(filepath.Join(*out, "sites.json"), sb, 0o644); err != nil {
		panic(err)
	}
	fmt.Printf("maporder: %d files rewritten, %d map-range sites\n", len(overlay), len(sites))
}
