package sim

// C13 — one replica set per template, faithful to it, never collected while in use.
// C07 M3 (retention of a failed replica set) rides along on the same delete calls.

import (
	"strings"
	"encoding/json"
	"time"

	corev1 "k8s.io/api/core/v1"
	apiequality "k8s.io/apimachinery/pkg/api/equality"

	edsv1 "github.com/DataDog/extendeddaemonset/api/v1alpha1"
)

type monC13 struct {
	baseMon
	hashOf map[string]string // eds uid + letter -> hash
	letOf  map[string]string // eds uid + hash -> letter
}

func (*monC13) Name() string { return "C13" }

const hashKey = edsv1.MD5ExtendedDaemonSetAnnotationKey

func (m *monC13) PreCall(s *Sim, c *Call) {
	t := c.Task
	if t.Crashed || c.Kind != KERS || c.Verb != "create" || t.Ctrl != CtrlEDS {
		return
	}
	v := t.View()
	if v.EDS == nil {
		return
	}
	b, _ := json.Marshal(c.Obj)
	req := &edsv1.ExtendedDaemonSetReplicaSet{}
	_ = json.Unmarshal(b, req)
	letter := letterOfTpl(&req.Spec.Template)
	s.Stats.NonVacuous["C13.create"]++
	for _, r := range s.Store.ERSs() {
		if t.Zombie {
			break // an instance that lost its lease: what it created since cannot be known to it
		}
		if r.Namespace == v.EDS.Namespace && ownerUID(&r.ObjectMeta, "ExtendedDaemonSet") == string(v.EDS.UID) && letterOfTpl(&r.Spec.Template) == letter {
			s.Violate("C13", "one-per-template", "", "%s creates a second replica set for template %s while %s exists", t.Label(), letter, r.Name)
		}
	}
	if !apiequality.Semantic.DeepEqual(req.Spec.Template, v.EDS.Spec.Template) {
		s.Violate("C13", "faithful", "template", "%s creates a replica set whose template differs from the spec.template it read", t.Label())
	}
	h := req.Annotations[hashKey]
	if h == "" || h != req.Spec.TemplateGeneration {
		s.Violate("C13", "faithful", "hash", "%s creates a replica set with hash annotation %q and templateGeneration %q", t.Label(), h, req.Spec.TemplateGeneration)
	}
}

func (m *monC13) PostCall(s *Sim, c *Call) {
	t := c.Task
	if t.Crashed {
		return
	}
	if m.hashOf == nil {
		m.hashOf, m.letOf = map[string]string{}, map[string]string{}
	}
	switch {
	case c.Kind == KERS && c.Verb == "create" && c.Applied() && c.Out != nil:
		o := &edsv1.ExtendedDaemonSetReplicaSet{}
		_ = json.Unmarshal(c.Out, o)
		uid := ownerUID(&o.ObjectMeta, "ExtendedDaemonSet")
		l, h := letterOfTpl(&o.Spec.Template), o.Annotations[hashKey]
		if old, ok := m.hashOf[uid+"|"+l]; ok && old != h {
			s.Violate("C13", "hash-stable", "", "template %s hashed to %s before and to %s now", l, old, h)
		}
		if old, ok := m.letOf[uid+"|"+h]; ok && old != l {
			s.Violate("C13", "hash-injective", "", "templates %s and %s share hash %s", old, l, h)
		}
		m.hashOf[uid+"|"+l] = h
		m.letOf[uid+"|"+h] = l
	case c.Kind == KPod && c.Verb == "create" && t.Ctrl == CtrlERS:
		v := t.View()
		if v.ERS == nil {
			return
		}
		p := reqPod(c)
		if p.Annotations[hashKey] != v.ERS.Annotations[hashKey] || p.Annotations[hashKey] != v.ERS.Spec.TemplateGeneration {
			s.Violate("C13", "pod-hash", "", "%s stamps hash %q on a pod, its replica set records %q/%q", t.Label(), p.Annotations[hashKey], v.ERS.Annotations[hashKey], v.ERS.Spec.TemplateGeneration)
		}
		// (the image decides: a resource override may replace the requests, spelling included)
		if strings.TrimSuffix(letterOfPod(p), "~") != strings.TrimSuffix(letterOfTpl(&v.ERS.Spec.Template), "~") {
			s.Violate("C13", "pod-template", "", "%s creates a pod of template %s from a replica set of template %s", t.Label(), letterOfPod(p), letterOfTpl(&v.ERS.Spec.Template))
		}
	}
}

func (m *monC13) TaskEnd(s *Sim, t *Task) {
	switch t.Ctrl {
	case CtrlEDS:
		v := t.View()
		if v.EDS == nil || len(v.ERSDeletes) == 0 {
			return
		}
		own := ownERS(v)
		st, _ := finalEDSStatus(v)
		specLetter := letterOfTpl(&v.EDS.Spec.Template)
		for _, c := range v.ERSDeletes {
			r := own[c.Name]
			if r == nil || c.NS != v.EDS.Namespace {
				continue // foreign: C12
			}
			s.Stats.NonVacuous["C13.delete"]++
			if t.Clean() && r.Name == st.ActiveReplicaSet {
				s.Violate("C13", "gc-active", "", "%s deleted the active replica set %s", t.Label(), r.Name)
			}
			twins := 0
			for _, o := range own {
				if letterOfTpl(&o.Spec.Template) == specLetter {
					twins++
				}
			}
			// (two replica sets of the live template can only stem from two overlapping controller
			// instances; removing the surplus one is the repair)
			if letterOfTpl(&r.Spec.Template) == specLetter && twins < 2 {
				s.Violate("C13", "gc-uptodate", "", "%s deleted replica set %s which matches spec.template", t.Label(), r.Name)
			}
			rs := r.Status
			if rs.Desired != 0 || rs.Current != 0 || rs.Ready != 0 || rs.Available != 0 {
				s.Violate("C13", "gc-nonzero", "", "%s deleted replica set %s reporting desired=%d current=%d ready=%d available=%d", t.Label(), r.Name, rs.Desired, rs.Current, rs.Ready, rs.Available)
				if ersCondTrue(&rs, edsv1.ConditionTypeCanaryFailed) {
					s.Violate("C07", "deleted-with-pods", "", "%s deleted failed replica set %s while it still reports desired=%d current=%d ready=%d available=%d", t.Label(), r.Name, rs.Desired, rs.Current, rs.Ready, rs.Available)
				}
			}
			if fc := ersCond(&rs, edsv1.ConditionTypeCanaryFailed); fc != nil && fc.Status == corev1.ConditionTrue {
				s.Stats.NonVacuous["C07.retention"]++
				band := time.Second + absDur(time.Duration(s.W.Cfg.SkewSec)*time.Second)
				if t.StartAt.Sub(fc.LastTransitionTime.Time) < 2*time.Minute-band {
					s.Violate("C07", "retention", "", "%s deleted failed replica set %s %v after it failed (< 2m)", t.Label(), r.Name, t.StartAt.Sub(fc.LastTransitionTime.Time))
				}
			}
		}
	case CtrlPodTpl:
		if !t.Successful() {
			return
		}
		v := t.View()
		if v.EDS == nil {
			return
		}
		b, err := s.Store.Get(KPodTpl, v.EDS.Namespace, v.EDS.Name)
		if err != nil {
			s.Violate("C13", "podtemplate", "missing", "%s succeeded but no PodTemplate exists", t.Label())
			return
		}
		pt := &corev1.PodTemplate{}
		_ = json.Unmarshal(b, pt)
		// judge only if nobody changed the EDS template since the task read it
		cur := s.Store.GetEDS(v.EDS.Namespace, v.EDS.Name)
		if cur == nil || !apiequality.Semantic.DeepEqual(cur.Spec.Template, v.EDS.Spec.Template) {
			return
		}
		s.Stats.NonVacuous["C13.podtemplate"]++
		if !apiequality.Semantic.DeepEqual(pt.Template, v.EDS.Spec.Template) {
			s.Violate("C13", "podtemplate", "template", "%s: PodTemplate template (%s) differs from spec.template (%s)", t.Label(), letterOfTpl(&pt.Template), letterOfTpl(&v.EDS.Spec.Template))
		}
		// (a template that still carries a name - not yet defaulted - hashes differently from the replica set's)
		if h, ok := m.hashOf[string(v.EDS.UID)+"|"+letterOfTpl(&v.EDS.Spec.Template)]; ok && pt.Annotations[hashKey] != h && v.EDS.Spec.Template.Name == "" {
			s.Violate("C13", "podtemplate", "hash", "%s: PodTemplate hash %q, replica set of the same template has %q", t.Label(), pt.Annotations[hashKey], h)
		}
	}
}

func absDur(d time.Duration) time.Duration {
	if d < 0 {
		return -d
	}
	return d
}
