#!/usr/bin/env python3
"""Runs the repository's pinned suite (guard off, default toolchain) and compares with BASELINE.json's stable_pass."""
import json, subprocess, sys, os
b = json.load(open('/root/.vp/BASELINE.json'))
want = set(b['stable_pass'])
passed, failed = set(), set()
for mod in ('/repo', '/repo/api'):
    env = dict(os.environ); env['GOFLAGS'] = ''
    p = subprocess.run(['go', 'test', '-json', '-vet=off', '-count=1', '-timeout', '25m', './...'], cwd=mod, env=env, stdout=subprocess.PIPE, stderr=subprocess.DEVNULL, text=True)
    for line in p.stdout.splitlines():
        try:
            d = json.loads(line)
        except Exception:
            continue
        if d.get('Test') and d.get('Action') in ('pass', 'fail'):
            k = d['Package'] + '::' + d['Test']
            (passed if d['Action'] == 'pass' else failed).add(k)
missing = sorted(want - passed)
print('stable_pass: %d, passed now: %d, missing/failed: %d' % (len(want), len(want & passed), len(missing)))
for m in missing[:20]:
    print('  NOT PASSING:', m)
sys.exit(1 if missing else 0)
