package sim

// The engine: tasks (one invocation of real code each), the gate every API call parks at,
// and the driver that is the only consumer of the run's PRNG.

import (
	"context"
	"encoding/json"
	"fmt"
	"hash/fnv"
	"math/rand/v2"
	"runtime/debug"
	"sort"
	"strings"
	"sync"
	"sync/atomic"
	"testing/synctest"
	"time"

	"github.com/go-logr/logr"
	corev1 "k8s.io/api/core/v1"
	apierrors "k8s.io/apimachinery/pkg/api/errors"
	"k8s.io/apimachinery/pkg/labels"
	"k8s.io/apimachinery/pkg/types"
	"k8s.io/client-go/tools/record"
	"sigs.k8s.io/controller-runtime/pkg/reconcile"

	edsv1 "github.com/DataDog/extendeddaemonset/api/v1alpha1"
	edsctrl "github.com/DataDog/extendeddaemonset/controllers/extendeddaemonset"
	ersctrl "github.com/DataDog/extendeddaemonset/controllers/extendeddaemonsetreplicaset"
	setctrl "github.com/DataDog/extendeddaemonset/controllers/extendeddaemonsetsetting"
	tplctrl "github.com/DataDog/extendeddaemonset/controllers/podtemplate"

	"verif/sim/simorder"
)

const (
	CtrlEDS     = "eds"
	CtrlERS     = "ers"
	CtrlSetting = "setting"
	CtrlPodTpl  = "podtpl"
	CtrlCLI     = "cli"
)

var ctrlNames = []string{CtrlEDS, CtrlERS, CtrlSetting, CtrlPodTpl}

// Call is one API call of a task: request, and (once granted) its outcome.
type Call struct {
	Task *Task
	Idx  int // index among the granted calls of the task
	Verb string
	Kind string
	NS   string
	Name string
	// request
	Obj      jmap   // create/update/updatestatus
	Patch    []byte // patch
	Selector labels.Selector
	SelStr   string
	Node     string // pod create: target node
	// outcome
	Granted bool
	Fault   string // "", reject, lost
	Err     error
	Out     []byte   // get/create/update/patch result
	OutList [][]byte // list result
	Pre     []byte   // stored object before a write (nil if none)
	Seq     uint64
	At      time.Time

	reply chan struct{}
}

func (c *Call) replyCh() chan struct{}   { return c.reply }
func (c *Call) setReply(ch chan struct{}) { c.reply = ch }

func (c *Call) IsWrite() bool {
	switch c.Verb {
	case "create", "update", "updatestatus", "patch", "patchstatus", "delete":
		return true
	}
	return false
}

// Applied tells whether the write reached the store.
func (c *Call) Applied() bool {
	return c.IsWrite() && (c.Err == nil || c.Fault == "lost")
}

func (c *Call) Desc() string {
	var b strings.Builder
	b.WriteString(c.Verb)
	b.WriteByte(' ')
	b.WriteString(c.Kind)
	if c.Verb == "list" {
		fmt.Fprintf(&b, " ns=%s sel=%s", c.NS, c.SelStr)
		return b.String()
	}
	b.WriteByte(' ')
	if c.NS != "" {
		b.WriteString(c.NS)
		b.WriteByte('/')
	}
	b.WriteString(c.Name)
	if c.Node != "" {
		b.WriteString(" node=")
		b.WriteString(c.Node)
	}
	return b.String()
}

// Task is one invocation of real code.
type Task struct {
	ID      int
	Ctrl    string
	Cmd     string // cli only
	Key     types.NamespacedName
	StartAt time.Time
	EndAt   time.Time
	Calls   []*Call
	Done    bool
	Result  reconcile.Result
	Err     error
	Panic   interface{}
	Stack   string
	Faulted bool // an injected fault hit this task
	Crashed bool // cut off by a crash
	Zombie  bool // belongs to an instance that lost its lease without noticing: it goes on while a fresh instance works
	batchSeen bool // C17: the task has already released one parallel batch
	Stalled bool // the clock moved while it was in flight
	Conflict bool
	client  *ctrlClient
	view    *SyncView
	nodesAtStart map[string]*corev1.Node // eds tasks: the cluster's nodes when the task began
}

func (t *Task) Label() string {
	if t.Ctrl == CtrlCLI {
		return "cli:" + t.Cmd + " " + t.Key.String()
	}
	return t.Ctrl + " " + t.Key.String()
}

// Clean means no injected fault, crash or natural conflict touched the task.
func (t *Task) Clean() bool { return !t.Faulted && !t.Crashed && !t.Conflict && !t.Zombie && t.Panic == nil }

// CleanButPodPatches: nothing went wrong in the task except, possibly, patches of pods (the canary
// label being set or removed). The code under test only asks for a prompt retry then; everything
// else a sync decides and does is independent of it.
func (t *Task) CleanButPodPatches() bool {
	if t.Crashed || t.Conflict || t.Zombie || t.Panic != nil {
		return false
	}
	for _, c := range t.Calls {
		if c.Fault != "" && !(c.Kind == KPod && c.Verb == "patch") {
			return false
		}
	}
	return true
}

// Successful additionally demands a nil error.
func (t *Task) Successful() bool { return t.Clean() && t.Err == nil }

type Violation struct {
	Prop    string `json:"prop"`
	Monitor string `json:"monitor"`
	Msg     string `json:"msg"`
	Sig     string `json:"sig,omitempty"` // context signature (for known findings)
	Step    int    `json:"step"`
	Known   string `json:"known,omitempty"`
}

// Decision is one entry of the trace.
type Decision struct {
	A string `json:"a"`
	K string `json:"k,omitempty"`
	F string `json:"f,omitempty"`
}

type Action struct {
	A, K   string
	Weight float64
	Do     func()
}

type Stats struct {
	Steps      int
	Tasks      map[string]int
	Calls      int
	Faults     map[string]int
	Probes     map[string]int
	Env        map[string]int
	SimTime    time.Duration
	Conflicts  int
	Overlaps   int
	Interleave uint64 // running hash of grant order inside overlap windows
	States     map[uint64]struct{}
	NonVacuous map[string]int
}

func newStats() Stats {
	return Stats{Tasks: map[string]int{}, Faults: map[string]int{}, Probes: map[string]int{}, Env: map[string]int{}, States: map[uint64]struct{}{}, NonVacuous: map[string]int{}}
}

type Sim struct {
	Seed uint64
	W    *World
	Store *Store
	start time.Time

	mu       sync.Mutex
	pending  []*Call
	finished []*Task

	tasks    []*Task
	inflight map[string]*Task // by controller; cli tasks keyed "cli#<id>"
	clients  map[string]*ctrlClient
	recon    map[string]reconcile.Reconciler
	gen      int

	rngSched *rand.Rand
	rngFault *rand.Rand
	rngEnv   *rand.Rand

	seq    uint64
	Hist   []*Call
	Trace  []Decision
	replay []Decision
	rpos   int
	replaying bool

	Monitors   []Monitor
	Violations []Violation
	Stats      Stats
	step       int
	phase      string
	batchMode  bool // C17: release parallel batches together

	Log []string // semantic event log (determinism diff)
	logOn bool

	queue       map[string]bool
	podOps      int
	stopQuiesce bool
	lastRoundOps int
	injSeq      int
	chaosCount  int
	// C11: single-fault injection by index of the controller tasks' API calls
	countCalls       bool
	ctrlCalls        int
	ctrlCallsCounted int
	callKinds        []bool
	faultAt, faultAt2 int
	faultKind, faultKind2 string
	faultsFired      int
	lateFrom, lateSeen int // C11 canary-fail-late: faults after call lateFrom are followed by a long pause
	finalState       string
	stuck int // Drain: consecutive waits for a sleeping task
	hung  bool // a reconcile hangs for good (reported as a violation); the run is abandoned
	faultyDrain bool // Drain draws API faults too (state-injection bodies)
	QuiesceHook func(round int)
}

func hash64(parts ...string) uint64 {
	h := fnv.New64a()
	for _, p := range parts {
		h.Write([]byte(p))
		h.Write([]byte{0})
	}
	return h.Sum64()
}

func subRng(seed uint64, purpose string) *rand.Rand {
	return rand.New(rand.NewPCG(seed, hash64(purpose)))
}

func (s *Sim) logf(format string, a ...interface{}) {
	if s.logOn {
		s.Log = append(s.Log, fmt.Sprintf("%d %s ", s.step, s.Now().UTC().Format("15:04:05.000")) + fmt.Sprintf(format, a...))
	}
}

func (s *Sim) Now() time.Time { return time.Now() }

func (s *Sim) Probe(name string) { s.Stats.Probes[name]++ }

func (s *Sim) Violate(prop, monitor, sig, format string, a ...interface{}) {
	v := Violation{Prop: prop, Monitor: monitor, Sig: sig, Msg: fmt.Sprintf(format, a...), Step: s.step}
	// one report per (prop, monitor, sig) per run is enough
	for _, o := range s.Violations {
		if o.Prop == v.Prop && o.Monitor == v.Monitor && o.Sig == v.Sig {
			return
		}
	}
	s.Violations = append(s.Violations, v)
	s.logf("VIOLATION %s %s %s: %s", prop, monitor, sig, v.Msg)
}

// ---------------------------------------------------------------------------------------
// gate

var errCrashed = apierrors.NewServiceUnavailable("simulated: controller process stopped")

func (s *Sim) gate(c *Call) {
	ch := make(chan struct{})
	c.reply = ch
	s.mu.Lock()
	s.pending = append(s.pending, c)
	s.mu.Unlock()
	<-ch
}

// ---------------------------------------------------------------------------------------
// tasks

type nopRecorder struct{}

func (nopRecorder) Event(object runtimeObject, eventtype, reason, message string)                    {}
func (nopRecorder) Eventf(object runtimeObject, eventtype, reason, messageFmt string, args ...interface{}) {}
func (nopRecorder) AnnotatedEventf(object runtimeObject, annotations map[string]string, eventtype, reason, messageFmt string, args ...interface{}) {
}

var _ record.EventRecorder = nopRecorder{}

func (s *Sim) buildReconcilers() {
	s.gen++
	for _, cl := range s.clients {
		if cl.fixed == nil { // a zombie's client stays usable (see Zombie)
			cl.dead.Store(true)
		}
	}
	s.clients = map[string]*ctrlClient{}
	s.recon = map[string]reconcile.Reconciler{}
	log := logr.Discard()
	for _, c := range ctrlNames {
		s.clients[c] = &ctrlClient{sim: s, ctrl: c}
	}
	r1, _ := edsctrl.NewReconciler(edsctrl.ReconcilerOptions{DefaultValidationMode: s.W.DefaultValidationMode}, s.clients[CtrlEDS], theScheme, log, nopRecorder{})
	r2, _ := ersctrl.NewReconciler(ersctrl.ReconcilerOptions{IsNodeAffinitySupported: s.W.AffinityMode}, s.clients[CtrlERS], theScheme, log, nopRecorder{})
	r3, _ := setctrl.NewReconciler(setctrl.ReconcilerOptions{}, s.clients[CtrlSetting], theScheme, log, nopRecorder{})
	r4, _ := tplctrl.NewReconciler(tplctrl.ReconcilerOptions{}, s.clients[CtrlPodTpl], theScheme, log, nopRecorder{})
	s.recon[CtrlEDS], s.recon[CtrlERS], s.recon[CtrlSetting], s.recon[CtrlPodTpl] = r1, r2, r3, r4
}

func (s *Sim) newTask(ctrl string, key types.NamespacedName) *Task {
	t := &Task{ID: len(s.tasks) + 1, Ctrl: ctrl, Key: key, StartAt: s.Now()}
	s.tasks = append(s.tasks, t)
	s.Stats.Tasks[ctrl]++
	return t
}

func (s *Sim) finish(t *Task) {
	s.mu.Lock()
	t.Done = true
	s.finished = append(s.finished, t)
	s.mu.Unlock()
}

// StartReconcile launches one Reconcile of a controller.
func (s *Sim) StartReconcile(ctrl string, key types.NamespacedName) *Task {
	if s.inflight[ctrl] != nil {
		panic("sim: controller busy: " + ctrl)
	}
	t := s.newTask(ctrl, key)
	t.client = s.clients[ctrl]
	s.inflight[ctrl] = t
	if ctrl == CtrlEDS {
		t.nodesAtStart = map[string]*corev1.Node{}
		for _, n := range s.Store.Nodes() {
			t.nodesAtStart[n.Name] = n
		}
	}
	if len(s.inflight) > 1 {
		s.Stats.Overlaps++
	}
	r := s.recon[ctrl]
	s.logf("start %s", t.Label())
	simorder.SetSalt(hash64(t.Label(), "start"))
	go func() {
		defer s.finish(t)
		defer func() {
			if p := recover(); p != nil {
				t.Panic = p
				t.Stack = string(debug.Stack())
			}
		}()
		t.Result, t.Err = r.Reconcile(context.Background(), reconcile.Request{NamespacedName: key})
	}()
	return t
}

// StartCLI launches a kubectl-eds command body.
func (s *Sim) StartCLI(cmd string, key types.NamespacedName) *Task {
	t := s.newTask(CtrlCLI, key)
	t.Cmd = cmd
	cl := &ctrlClient{sim: s, ctrl: CtrlCLI, fixed: t}
	t.client = cl
	s.inflight[fmt.Sprintf("cli#%d", t.ID)] = t
	s.logf("start %s", t.Label())
	go func() {
		defer s.finish(t)
		defer func() {
			if p := recover(); p != nil {
				t.Panic = p
				t.Stack = string(debug.Stack())
			}
		}()
		t.Err = runCLI(cmd, cl, key)
	}()
	return t
}

func (s *Sim) collectFinished() {
	s.mu.Lock()
	fin := s.finished
	s.finished = nil
	s.mu.Unlock()
	sort.Slice(fin, func(i, j int) bool { return fin[i].ID < fin[j].ID })
	for _, t := range fin {
		t.EndAt = s.Now()
		for k, v := range s.inflight {
			if v == t {
				delete(s.inflight, k)
			}
		}
		if t.Panic != nil {
			s.logf("end %s PANIC %v", t.Label(), t.Panic)
		} else {
			s.logf("end %s err=%v requeue=%v after=%v", t.Label(), t.Err, t.Result.Requeue, t.Result.RequeueAfter)
		}
		s.requeueHint(t)
		for _, m := range s.Monitors {
			m.TaskEnd(s, t)
		}
	}
}

// ---------------------------------------------------------------------------------------
// executing a call on the store

func (s *Sim) canonicalPending() []*Call {
	s.mu.Lock()
	p := append([]*Call(nil), s.pending...)
	s.mu.Unlock()
	sort.SliceStable(p, func(i, j int) bool {
		if p[i].Task.ID != p[j].Task.ID {
			return p[i].Task.ID < p[j].Task.ID
		}
		return p[i].Desc() < p[j].Desc()
	})
	return p
}

func (s *Sim) removePending(c *Call) {
	s.mu.Lock()
	for i, p := range s.pending {
		if p == c {
			s.pending = append(s.pending[:i], s.pending[i+1:]...)
			break
		}
	}
	s.mu.Unlock()
}

// injectedErr: the error a faulted call returns. The kind of error is varied by call
// identity (not by a PRNG draw, so that generation and replay agree): code under test may
// treat time-outs differently from plain failures.
func (s *Sim) injectedErr(kind string, c *Call) error {
	switch hash64(fmt.Sprint(s.Seed), kind, c.Task.Label(), c.Desc(), fmt.Sprint(c.Idx)) % 5 {
	case 0:
		return apierrors.NewTimeoutError("simulated "+kind, 1)
	case 1:
		return apierrors.NewServerTimeout(gr(c.Kind), c.Verb, 1)
	case 2:
		return apierrors.NewServiceUnavailable("simulated " + kind)
	case 3:
		return apierrors.NewTooManyRequestsError("simulated " + kind)
	}
	return apierrors.NewInternalError(fmt.Errorf("simulated %s", kind))
}

// grant executes (or faults) a parked call and releases its goroutine.
func (s *Sim) grant(c *Call, fault string) {
	s.removePending(c)
	t := c.Task
	c.Idx = len(t.Calls)
	t.Calls = append(t.Calls, c)
	s.seq++
	c.Seq = s.seq
	c.At = s.Now()
	c.Granted = true
	c.Fault = fault
	s.Stats.Calls++
	if len(s.inflight) > 1 {
		s.Stats.Interleave = s.Stats.Interleave*1099511628211 ^ hash64(t.Ctrl, c.Desc())
	}
	if fault == "" && s.W.Cfg.PatchDenied && c.Kind == KPod && c.Verb == "patch" && t.Ctrl == CtrlERS {
		fault = "reject"
		c.Fault = fault
	}
	for _, m := range s.Monitors {
		m.PreCall(s, c)
	}
	switch {
	case t.Crashed:
		c.Err = errCrashed
	case fault == "reject" && c.Verb == "delete" && c.Kind == KPod && hash64(fmt.Sprint(s.Seed), "gone", t.Label(), c.Desc(), fmt.Sprint(c.Idx))%4 == 0:
		// another way for a deletion to fail: somebody else (eviction clean-up, the pod garbage
		// collector, the kubelet) removed the pod since it was listed - the call returns NotFound
		pre, _ := s.Store.Get(c.Kind, c.NS, c.Name)
		s.Store.Remove(objKey{c.Kind, c.NS, c.Name})
		c.Err = s.Store.Delete(c.Kind, c.NS, c.Name)
		c.Pre = pre
		c.Fault = "gone"
		t.Faulted = true
		s.Stats.Faults["gone"]++
	case fault == "reject":
		c.Err = s.injectedErr("rejected", c)
		t.Faulted = true
		s.Stats.Faults["reject"]++
	default:
		s.exec(c)
		if fault == "lost" && c.Err == nil {
			c.Err = s.injectedErr("reply lost", c)
			s.Stats.Faults["lost-reply"]++
			t.Faulted = true
		} else {
			c.Fault = ""
			if c.Err != nil && apierrors.IsConflict(c.Err) {
				t.Conflict = true
				s.Stats.Conflicts++
			}
		}
	}
	s.Hist = append(s.Hist, c)
	if c.Kind == KPod && (c.Verb == "create" || c.Verb == "delete") && c.Applied() {
		s.podOps++
	}
	s.logf("call %s #%d %s fault=%s err=%v", t.Label(), c.Idx, c.Desc(), c.Fault, errStr(c.Err))
	for _, m := range s.Monitors {
		m.PostCall(s, c)
	}
	simorder.SetSalt(hash64(t.Label(), c.Desc(), fmt.Sprint(c.Idx)))
	close(c.reply)
}

func errStr(err error) string {
	if err == nil {
		return "<nil>"
	}
	return string(apierrors.ReasonForError(err)) + ":" + err.Error()
}

func (s *Sim) exec(c *Call) {
	st := s.Store
	switch c.Verb {
	case "get":
		c.Out, c.Err = st.Get(c.Kind, c.NS, c.Name)
	case "list":
		c.OutList = st.List(c.Kind, c.NS, c.Selector)
	case "create":
		c.Out, c.Err = st.Create(c.Kind, c.Obj)
	case "update":
		c.Pre, _ = st.Get(c.Kind, c.NS, c.Name)
		c.Out, c.Err = st.Update(c.Kind, c.Obj)
	case "updatestatus":
		c.Pre, _ = st.Get(c.Kind, c.NS, c.Name)
		c.Out, c.Err = st.UpdateStatus(c.Kind, c.Obj)
	case "patch":
		c.Pre, _ = st.Get(c.Kind, c.NS, c.Name)
		c.Out, c.Err = st.Patch(c.Kind, c.NS, c.Name, c.Patch)
	case "patchstatus":
		c.Pre, _ = st.Get(c.Kind, c.NS, c.Name)
		c.Out, c.Err = st.PatchStatus(c.Kind, c.NS, c.Name, c.Patch)
	case "delete":
		c.Pre, _ = st.Get(c.Kind, c.NS, c.Name)
		c.Err = st.Delete(c.Kind, c.NS, c.Name)
	default:
		panic("sim: verb " + c.Verb)
	}
}

// Crash cuts every in-flight controller task off the store and builds fresh reconcilers.
func (s *Sim) Crash() {
	s.Stats.Faults["crash"]++
	s.logf("crash")
	var victims []*Task
	for k, t := range s.inflight {
		if t.Ctrl == CtrlCLI {
			continue
		}
		t.Crashed = true
		victims = append(victims, t)
		delete(s.inflight, k)
	}
	s.buildReconcilers()
	// release the parked calls of the dead tasks; they run to their end on errors. A dead task
	// that sleeps (back-off inside the reconcile) is waited for on the fake clock, so that none of
	// its goroutines outlives the crash.
	for waited := 0; ; {
		synctest.Wait()
		var dead []*Call
		for _, c := range s.canonicalPending() {
			if c.Task.Crashed {
				dead = append(dead, c)
			}
		}
		if len(dead) == 0 {
			alive := false
			s.mu.Lock()
			for _, t := range victims {
				if !t.Done {
					alive = true
				}
			}
			s.mu.Unlock()
			if !alive || waited > 900 {
				break
			}
			waited++
			time.Sleep(time.Second)
			s.Stats.SimTime += time.Second
			continue
		}
		for _, c := range dead {
			s.grant(c, "")
		}
	}
	s.collectFinished()
}

// Advance moves the fake clock; in-flight tasks are stalled across it.
func (s *Sim) Advance(d time.Duration) {
	if d <= 0 {
		return
	}
	for _, t := range s.inflight {
		t.Stalled = true
		s.Stats.Faults["stall"]++
	}
	time.Sleep(d)
	s.Stats.SimTime += d
	s.logf("advance %v", d)
}

// ---------------------------------------------------------------------------------------
// the driver

var errHung = fmt.Errorf("sim: reconcile hangs")

// Drain grants pending calls (no faults) until no task is in flight.
func (s *Sim) Drain() {
	for i := 0; i < 100000; i++ {
		synctest.Wait()
		s.collectFinished()
		p := s.canonicalPending()
		if len(p) == 0 {
			if len(s.inflight) != 0 {
				// a task is neither finished nor parked at the gate: it sleeps (a back-off inside the
				// reconcile). The fake clock moves on until it comes back.
				s.stuck++
				if s.stuck > 900 && s.W.Extra["c17"] == "1" {
					// C17: the errors of the parallel pod operations must come back in what the sync reports.
					// A sync that is neither finished nor waiting for the API after 15 simulated minutes (the
					// longest back-off inside a reconcile is seconds) never reports anything.
					hung := true
					var labels []string
					for _, k := range sortedKeys(s.inflight) {
						t := s.inflight[k]
						labels = append(labels, t.Label())
						if t.Ctrl == CtrlCLI {
							hung = false
						}
					}
					if hung {
						s.Violate("C17", "sync-hangs", "", "%s: neither finished nor waiting for an API call after 15 simulated minutes - the sync never reports (goroutines of its parallel pod operations block each other)", strings.Join(labels, ", "))
						s.hung = true
						panic(errHung)
					}
				}
				if s.stuck > 900 {
					panic(fmt.Sprintf("sim: %d tasks in flight but nothing pending after 15 simulated minutes", len(s.inflight)))
				}
				time.Sleep(time.Second)
				s.Stats.SimTime += time.Second
				continue
			}
			s.stuck = 0
			return
		}
		s.stuck = 0
		var c *Call
		if s.rngSched != nil && len(p) > 1 {
			c = p[s.rngSched.IntN(len(p))]
		} else {
			c = p[0]
		}
		f := ""
		if s.faultyDrain {
			f = s.drawFault(c.Task.Ctrl + " " + c.Desc())
		}
		if s.countCalls && c.Task.Ctrl != CtrlCLI && !c.Task.Crashed {
			s.ctrlCalls++
			s.ctrlCallsCounted++
			s.callKinds = append(s.callKinds, c.IsWrite())
			kind := ""
			if s.ctrlCalls == s.faultAt {
				kind = s.faultKind
			} else if s.ctrlCalls == s.faultAt2 {
				kind = s.faultKind2
			}
			if kind != "" {
				s.faultsFired++
				s.logf("c11 fault %s at call %d", kind, s.ctrlCalls)
				switch kind {
				case "crash-before":
					s.Crash()
					continue
				case "crash-after":
					s.grant(c, "")
					s.Crash()
					continue
				default:
					f = kind
				}
			}
		}
		if s.batchMode {
			s.grantBatch(c, f)
		} else {
			s.grant(c, f)
		}
	}
	panic("sim: drain did not terminate")
}

// RunTaskWithFault runs one reconcile alone; its first call accepted by match gets the fault
// (reject, lost, crash-before, crash-after). Reports whether the fault fired.
func (s *Sim) RunTaskWithFault(ctrl string, key types.NamespacedName, kind string, match func(*Call) bool) (*Task, bool) {
	t := s.StartReconcile(ctrl, key)
	fired := false
	for i := 0; i < 100000; i++ {
		synctest.Wait()
		s.collectFinished()
		p := s.canonicalPending()
		if len(p) == 0 {
			return t, fired
		}
		c := p[0]
		if !fired && c.Task == t && match(c) {
			fired = true
			s.Stats.Faults["targeted-"+kind]++
			s.logf("targeted fault %s at %s", kind, c.Desc())
			switch kind {
			case "crash-before":
				s.Crash()
			case "crash-after":
				s.grant(c, "")
				s.Crash()
			default:
				s.grant(c, kind)
			}
			continue
		}
		s.grant(c, "")
	}
	panic("sim: RunTaskWithFault did not terminate")
}

// RunTask runs one reconcile to completion with no interleaving and no faults.
func (s *Sim) RunTask(ctrl string, key types.NamespacedName) *Task {
	t := s.StartReconcile(ctrl, key)
	s.Drain()
	return t
}

func (s *Sim) RunCLI(cmd string, key types.NamespacedName) *Task {
	t := s.StartCLI(cmd, key)
	s.Drain()
	return t
}

// RunCLIWhileParked runs a command to completion while the other in-flight tasks stay parked
// where they are (the command lands in the middle of their reconcile).
func (s *Sim) RunCLIWhileParked(cmd string, key types.NamespacedName) *Task {
	t := s.StartCLI(cmd, key)
	for i := 0; i < 1000 && !t.Done; i++ {
		synctest.Wait()
		var mine *Call
		for _, c := range s.canonicalPending() {
			if c.Task == t {
				mine = c
				break
			}
		}
		if mine == nil {
			break
		}
		s.grant(mine, "")
	}
	synctest.Wait()
	s.collectFinished()
	return t
}

// Zombie: the controller process loses its lease without noticing. The reconciles it has in flight
// go on against the API, wherever they are parked, while a fresh instance (new reconcilers, empty
// in-memory state) starts working on the same keys.
func (s *Sim) Zombie() {
	s.Stats.Faults["zombie"]++
	s.logf("zombie: a fresh controller instance takes over, the old one goes on")
	for _, k := range sortedKeys(s.inflight) {
		t := s.inflight[k]
		if t.Ctrl == CtrlCLI || t.Zombie {
			continue
		}
		t.Zombie = true
		if cl := s.clients[t.Ctrl]; cl != nil {
			cl.fixed = t // its calls stay attributed to it; written while every task goroutine is parked
		}
		delete(s.inflight, k)
		s.inflight[fmt.Sprintf("zombie#%d", t.ID)] = t
	}
	s.buildReconcilers()
}

// RunTaskWhileParked runs one reconcile to completion while the other in-flight tasks stay parked.
func (s *Sim) RunTaskWhileParked(ctrl string, key types.NamespacedName) *Task {
	t := s.StartReconcile(ctrl, key)
	for i := 0; i < 100000 && !t.Done; i++ {
		synctest.Wait()
		var mine *Call
		for _, c := range s.canonicalPending() {
			if c.Task == t {
				mine = c
				break
			}
		}
		if mine == nil {
			break
		}
		s.grant(mine, "")
	}
	synctest.Wait()
	s.collectFinished()
	return t
}

func (s *Sim) record(a *Action, f string) {
	s.Trace = append(s.Trace, Decision{A: a.A, K: a.K, F: f})
}

// stateHash summarises the abstract cluster state (for the distinct-states measure).
func (s *Sim) noteState() {
	h := fnv.New64a()
	for _, k := range s.Store.Keys(KPod) {
		b, _ := s.Store.Raw(k)
		var p struct {
			Metadata struct {
				DeletionTimestamp *string           `json:"deletionTimestamp"`
				Labels            map[string]string `json:"labels"`
			} `json:"metadata"`
			Spec struct {
				NodeName   string `json:"nodeName"`
				Containers []struct {
					Image string `json:"image"`
				} `json:"containers"`
			} `json:"spec"`
			Status struct {
				Phase      string `json:"phase"`
				Conditions []struct {
					Type, Status string
				} `json:"conditions"`
			} `json:"status"`
		}
		_ = json.Unmarshal(b, &p)
		img := ""
		if len(p.Spec.Containers) > 0 {
			img = p.Spec.Containers[0].Image
		}
		ready := "f"
		for _, c := range p.Status.Conditions {
			if c.Type == "Ready" && c.Status == "True" {
				ready = "t"
			}
		}
		fmt.Fprintf(h, "p|%s|%s|%s|%s|%v;", p.Spec.NodeName, img, p.Status.Phase, ready, p.Metadata.DeletionTimestamp != nil)
	}
	for _, e := range s.Store.EDSs() {
		cn := -1
		if e.Status.Canary != nil {
			cn = len(e.Status.Canary.Nodes)
		}
		fmt.Fprintf(h, "e|%s|%s|%d|%s;", e.Name, e.Status.State, cn, e.Status.ActiveReplicaSet)
		for _, k := range []string{edsv1.ExtendedDaemonSetCanaryPausedAnnotationKey, edsv1.ExtendedDaemonSetCanaryUnpausedAnnotationKey, edsv1.ExtendedDaemonSetCanaryValidAnnotationKey, edsv1.ExtendedDaemonSetRollingUpdatePausedAnnotationKey, edsv1.ExtendedDaemonSetRolloutFrozenAnnotationKey} {
			fmt.Fprintf(h, "%s,", e.Annotations[k])
		}
	}
	for _, r := range s.Store.ERSs() {
		fmt.Fprintf(h, "r|%s|%d%d%d%d|", r.Name, r.Status.Desired, r.Status.Current, r.Status.Ready, r.Status.Available)
		for _, c := range r.Status.Conditions {
			if c.Type != edsv1.ConditionTypeLastFullSync {
				fmt.Fprintf(h, "%s=%s,", c.Type, c.Status)
			}
		}
	}
	s.Stats.States[h.Sum64()] = struct{}{}
}

var _ = atomic.Bool{}
