package sim

// C17 (second half) — every error of a parallel pod creation or deletion is reflected in the
// replica set's ReconcileError or PodsCleanupDone condition.

import (
	"encoding/json"

	corev1 "k8s.io/api/core/v1"

	edsv1 "github.com/DataDog/extendeddaemonset/api/v1alpha1"
)

type monC17 struct{ baseMon }

func (monC17) Name() string { return "C17" }

func (monC17) TaskEnd(s *Sim, t *Task) {
	if t.Ctrl != CtrlERS || t.Crashed {
		return
	}
	v := t.View()
	if !v.Full() || v.EDS == nil || v.ERS == nil {
		return
	}
	var written *edsv1.ExtendedDaemonSetReplicaSetStatus
	for _, c := range v.StatusWrites {
		if c.Kind == KERS && c.Err == nil && c.Out != nil {
			o := &edsv1.ExtendedDaemonSetReplicaSet{}
			_ = json.Unmarshal(c.Out, o)
			written = &o.Status
		}
	}
	if written == nil {
		return
	}
	f := facts(v)
	isClean := map[string]bool{}
	for _, p := range f.cleanDel {
		isClean[p.Namespace+"/"+p.Name] = true
	}
	failedCreate, failedUpdateDel, failedCleanup := 0, 0, 0
	for _, c := range v.PodCreates {
		if c.Err != nil {
			failedCreate++
		}
	}
	for _, c := range v.PodDeletes {
		if c.Err == nil {
			continue
		}
		if isClean[c.NS+"/"+c.Name] {
			failedCleanup++
		} else {
			failedUpdateDel++
		}
	}
	if failedCreate+failedUpdateDel+failedCleanup == 0 {
		return
	}
	s.Stats.NonVacuous["C17.failed-pod-op"]++
	recErr := ersCondTrue(written, edsv1.ConditionTypeReconcileError)
	if failedCreate+failedUpdateDel > 0 && !recErr {
		s.Violate("C17", "error-lost", "create-or-update-delete", "%s: %d pod creations and %d update-deletions failed, the status write succeeded, but ReconcileError is not true", t.Label(), failedCreate, failedUpdateDel)
	}
	if failedCleanup > 0 {
		cd := ersCond(written, edsv1.ConditionTypePodsCleanupDone)
		cleanupFalse := cd != nil && cd.Status == corev1.ConditionFalse
		if !cleanupFalse && !recErr {
			s.Violate("C17", "error-lost", "cleanup-"+v.Role(), "%s (%s): %d clean-up deletions failed, the status write succeeded, but neither ReconcileError is true nor PodsCleanupDone false", t.Label(), v.Role(), failedCleanup)
		}
		// In the active role the failure is also part of the error the sync reports, which the
		// replica set records as ReconcileError (the canary role only records PodsCleanupDone).
		if v.Role() == "active" && !recErr && written.Status == "active" {
			s.Violate("C17", "error-lost", "cleanup-active-unreported", "%s (active): %d clean-up deletions failed and PodsCleanupDone says so, but the sync reported no error (ReconcileError is not true)", t.Label(), failedCleanup)
		}
	}
}
