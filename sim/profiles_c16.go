package sim

import (
	"encoding/json"
	"fmt"
	"math/rand/v2"
	"time"

	"k8s.io/apimachinery/pkg/types"
)

// C16: boundary lattice of every strategy field.

type latticePoint struct{ Field, Value string }

const c16Bases = 8

var intLattice = []string{"<absent>", "0", "-1", "1", "2147483647", "10%", "0%", "200%", "abc%", "50"}
var durLattice = []string{"<absent>", "0s", "-1s", "500ms", "1s", "10m"}
var i32Lattice = []string{"<absent>", "0", "-1", "1", "2147483647"}
var boolLattice = []string{"<absent>", "true", "false"}

func c16Lattice() []latticePoint {
	var out []latticePoint
	add := func(f string, vals []string) {
		for _, v := range vals {
			out = append(out, latticePoint{f, v})
		}
	}
	add("maxUnavailable", intLattice)
	add("maxPodSchedulerFailure", intLattice)
	add("slowStartAdditiveIncrease", intLattice)
	add("maxParallelPodCreation", i32Lattice)
	add("slowStartIntervalDuration", durLattice)
	add("reconcileFrequency", durLattice)
	add("canary.replicas", intLattice)
	add("canary.duration", durLattice)
	add("canary.noRestartsDuration", durLattice)
	add("canary.validationMode", []string{"<absent>", "auto", "manual"})
	add("canary.autoPause.enabled", boolLattice)
	add("canary.autoPause.maxRestarts", i32Lattice)
	add("canary.autoPause.maxSlowStartDuration", durLattice)
	add("canary.autoFail.enabled", boolLattice)
	add("canary.autoFail.maxRestarts", i32Lattice)
	add("canary.autoFail.maxRestartsDuration", durLattice)
	add("canary.autoFail.canaryTimeout", durLattice)
	add("canary", []string{"<absent>"})
	add("template.name", []string{"named"})
	return out
}

func parseI32(v string) *int32 {
	var n int32
	fmt.Sscan(v, &n)
	return &n
}

func applyLattice(st *StrategyDef, w *World, p latticePoint) {
	v := p.Value
	abs := v == "<absent>"
	str := func() string {
		if abs {
			return ""
		}
		return v
	}
	c := st.Canary
	switch p.Field {
	case "maxUnavailable":
		st.MaxUnavailable = str()
	case "maxPodSchedulerFailure":
		st.MaxPodSchedulerFail = str()
	case "slowStartAdditiveIncrease":
		st.SlowStartIncrease = str()
	case "maxParallelPodCreation":
		st.MaxParallel = nil
		if !abs {
			st.MaxParallel = parseI32(v)
		}
	case "slowStartIntervalDuration":
		st.SlowStartInterval = str()
	case "reconcileFrequency":
		st.ReconcileFrequency = str()
	case "canary":
		st.Canary = nil
	case "template.name":
		w.Extra["templateName"] = v
	}
	if c == nil || st.Canary == nil {
		return
	}
	switch p.Field {
	case "canary.replicas":
		c.Replicas = str()
	case "canary.duration":
		c.Duration = str()
	case "canary.noRestartsDuration":
		c.NoRestartsDuration = str()
	case "canary.validationMode":
		c.ValidationMode = str()
	case "canary.autoPause.enabled":
		c.AutoPauseEnabled = nil
		if !abs {
			c.AutoPauseEnabled = bptr(v == "true")
		}
	case "canary.autoPause.maxRestarts":
		c.AutoPauseMaxRestarts = nil
		if !abs {
			c.AutoPauseMaxRestarts = parseI32(v)
		}
	case "canary.autoPause.maxSlowStartDuration":
		c.MaxSlowStartDuration = str()
	case "canary.autoFail.enabled":
		c.AutoFailEnabled = nil
		if !abs {
			c.AutoFailEnabled = bptr(v == "true")
		}
	case "canary.autoFail.maxRestarts":
		c.AutoFailMaxRestarts = nil
		if !abs {
			c.AutoFailMaxRestarts = parseI32(v)
		}
	case "canary.autoFail.maxRestartsDuration":
		c.MaxRestartsDuration = str()
	case "canary.autoFail.canaryTimeout":
		c.CanaryTimeout = str()
	}
}

func c16Base(i int) (StrategyDef, string) {
	switch i % c16Bases {
	case 0: // everything left to defaulting, canary block present
		return StrategyDef{Canary: &CanaryDef{}}, "auto"
	case 1: // explicit auto canary
		return StrategyDef{MaxUnavailable: "2", SlowStartInterval: "10s", SlowStartIncrease: "2", ReconcileFrequency: "10s", MaxParallel: i32(5),
			Canary: &CanaryDef{Replicas: "1", Duration: "2m", NoRestartsDuration: "1m", ValidationMode: "auto", AutoPauseEnabled: bptr(true), AutoPauseMaxRestarts: i32(1), AutoFailEnabled: bptr(true), AutoFailMaxRestarts: i32(3), CanaryTimeout: "10m", MaxRestartsDuration: "5m", MaxSlowStartDuration: "1m"}}, "auto"
	case 2: // manual validation
		return StrategyDef{ReconcileFrequency: "10s", SlowStartInterval: "10s", Canary: &CanaryDef{Replicas: "2", ValidationMode: "manual"}}, "auto"
	case 3: // controller-level default manual
		return StrategyDef{ReconcileFrequency: "10s", SlowStartInterval: "1m", Canary: &CanaryDef{Replicas: "1"}}, "manual"
	case 6: // auto canary with auto-pause switched off and auto-fail on: the timeout rule must not depend on auto-pause
		return StrategyDef{ReconcileFrequency: "10s", SlowStartInterval: "10s", Canary: &CanaryDef{Replicas: "1", Duration: "2m", ValidationMode: "auto", AutoPauseEnabled: bptr(false), AutoFailEnabled: bptr(true), AutoFailMaxRestarts: i32(3), CanaryTimeout: "10m"}}, "auto"
	case 5: // manual validation with both automatisms switched off
		return StrategyDef{ReconcileFrequency: "10s", SlowStartInterval: "10s", Canary: &CanaryDef{Replicas: "1", ValidationMode: "manual", AutoPauseEnabled: bptr(false), AutoFailEnabled: bptr(false)}}, "auto"
	case 7: // fully spelled out except the validation mode, which the controller-level default (manual) supplies
		return StrategyDef{MaxUnavailable: "1", MaxPodSchedulerFail: "0", SlowStartInterval: "10s", SlowStartIncrease: "1", ReconcileFrequency: "10s", MaxParallel: i32(250),
			Canary: &CanaryDef{Replicas: "1", NodeSelector: map[string]string{"os": "linux"}, AutoPauseEnabled: bptr(true), AutoPauseMaxRestarts: i32(2), AutoFailEnabled: bptr(true), AutoFailMaxRestarts: i32(5)}}, "manual"
	default: // fully spelled out: every field the defaulted-recogniser inspects is set, so that a
		// single absent field exposes what the recogniser does not look at
		return StrategyDef{MaxUnavailable: "1", MaxPodSchedulerFail: "0", SlowStartInterval: "10s", SlowStartIncrease: "1", ReconcileFrequency: "10s", MaxParallel: i32(250),
			Canary: &CanaryDef{Replicas: "1", Duration: "2m", ValidationMode: "auto", NodeSelector: map[string]string{"os": "linux"}, AutoPauseEnabled: bptr(true), AutoPauseMaxRestarts: i32(2), AutoFailEnabled: bptr(true), AutoFailMaxRestarts: i32(5)}}, "auto"
	}
}

func genC16(r *rand.Rand, tier string, idx int) *World {
	lat := c16Lattice()
	w := &World{Extra: map[string]string{}}
	for i := 0; i < 3; i++ {
		w.Nodes = append(w.Nodes, &NodeDef{Name: nodeName(i), Labels: map[string]string{"os": "linux"}})
	}
	var pts []latticePoint
	nb := c16Bases
	single := len(lat) * nb
	base := idx % nb
	if idx < single {
		pts = []latticePoint{lat[(idx/nb)%len(lat)]}
	} else {
		// pairs: enumerated in order over the whole lattice square (thorough), wrapped
		k := (idx - single) / nb
		a, b := k%len(lat), (k/len(lat))%len(lat)
		pts = []latticePoint{lat[a], lat[b]}
	}
	st, mode := c16Base(base)
	w.DefaultValidationMode = "auto"
	if mode == "manual" {
		w.DefaultValidationMode = "manual"
	}
	for _, p := range pts {
		applyLattice(&st, w, p)
	}
	e := &EDSDef{NS: "ns1", Name: "foo", Initial: "A", Templates: map[string]*TemplateDef{"A": {Letter: "A"}, "B": {Letter: "B"}}, Strategy: st}
	w.EDS = []*EDSDef{e}
	b, _ := json.Marshal(pts)
	w.Extra["lattice"] = string(b)
	w.AffinityMode = (idx/c16Bases)%2 == 1
	w.Cfg = Config{Kubelet: true}
	return w
}

func bodyC16(s *Sim) {
	s.Setup()
	def := s.W.EDS[0]
	key := types.NamespacedName{Namespace: def.NS, Name: def.Name}
	all := func() {
		s.RunTask(CtrlEDS, key)
		for _, r := range s.Store.ERSs() {
			s.RunTask(CtrlERS, types.NamespacedName{Namespace: r.Namespace, Name: r.Name})
		}
		s.RunTask(CtrlPodTpl, key)
		s.settleAll()
	}
	// deploy, crossing slow-start slots
	for i := 0; i < 4; i++ {
		all()
		s.Advance(pick(s.rngEnv, time.Second, 11*time.Second, 61*time.Second))
	}
	// the manifest is applied again (the strategy as authored replaces the defaulted one) and the
	// replica sets are reconciled before the ExtendedDaemonSet is defaulted again
	reapply := func(wait time.Duration) {
		s.userReapply(def.NS, def.Name)
		s.Advance(wait)
		for _, r := range s.Store.ERSs() {
			s.RunTask(CtrlERS, types.NamespacedName{Namespace: r.Namespace, Name: r.Name})
		}
		s.RunTask(CtrlPodTpl, key)
		all()
	}
	reapply(time.Second)
	// the manifest is applied once more and the user edits a strategy field between the read and
	// the write of the reconcile that defaults it
	s.userReapply(def.NS, def.Name)
	s.StartReconcile(CtrlEDS, key)
	synctestWait()
	if p := s.canonicalPending(); len(p) > 0 {
		s.grant(p[0], "")
	}
	if e := s.Store.GetEDS(def.NS, def.Name); e != nil {
		switch s.rngEnv.IntN(3) {
		case 0:
			e.Spec.Strategy.RollingUpdate.MaxUnavailable = intOrStr("30%")
		case 1:
			e.Spec.Strategy.RollingUpdate.SlowStartAdditiveIncrease = intOrStr("7")
		default:
			if c := e.Spec.Strategy.Canary; c != nil {
				c.Replicas = intOrStr("2")
			} else {
				e.Spec.Strategy.RollingUpdate.MaxUnavailable = intOrStr("30%")
			}
		}
		s.Store.ForceUpdate(e)
	}
	s.Drain()
	all()
	// template change: canary (or rolling update) to its end
	s.userSetTemplate(def.NS, def.Name, "B")
	for i := 0; i < 3; i++ {
		all()
		s.Advance(11 * time.Second)
	}
	// a restart and a slow starter among the new pods
	for _, p := range s.Store.Pods() {
		if letterOfPod(p) == "B" && p.DeletionTimestamp == nil && len(p.Status.ContainerStatuses) > 0 {
			s.kRestart(p, "Error")
			break
		}
	}
	all()
	reapply(pick(s.rngEnv, time.Second, 61*time.Second))
	s.Advance(3 * time.Minute)
	all()
	s.Advance(11 * time.Minute)
	for i := 0; i < 3; i++ {
		all()
		s.Advance(11 * time.Second)
	}
	if e := s.Store.GetEDS(def.NS, def.Name); e != nil && e.Status.Canary != nil {
		s.RunCLI("canary-validate", key)
		all()
		s.Advance(11 * time.Second)
		all()
	}
}

func init() {
	lat := c16Lattice()
	register(&Profile{Name: "C16", Decide: []string{"C16"}, Quick: len(lat) * c16Bases, Thorough: len(lat)*c16Bases + len(lat)*len(lat)*c16Bases, Gen: genC16, Body: bodyC16,
		NonVacuous: []string{"C16.defaulting", "C16.invalid-spec", "C12.write"}, Chunk: 20,
		Rule: fmt.Sprintf("Boundary lattice of every strategy field (%d points: absent, 0, negative, 1, huge, percent, 0%%, 200%%, malformed percent; durations absent/0/negative/sub-second/positive; booleans; validation mode unset/auto/manual; canary block absent; template name set) applied to 8 base configurations (all defaults, explicit auto canary, manual validation, controller-level default manual, fully spelled-out spec, manual validation with auto-pause and auto-fail disabled, auto canary with auto-pause off, fully spelled-out spec whose validation mode comes from the controller-level default manual), both node-assignment modes; quick enumerates every single-field point, thorough also every pair; each spec goes through a scripted history (deploy across slow-start slots, template change, the manifest applied again with the replica sets reconciled before the re-defaulting, canary with a restarting pod, time-out, validation) on the fake clock with every reconcile recovered and the worker process watched for crashes of child goroutines.", len(lat))})
}
