package sim

// C01 — at most one daemon pod per node, only on eligible nodes.

import (
	"fmt"

	corev1 "k8s.io/api/core/v1"
)

type monC01 struct{ baseMon }

func (monC01) Name() string { return "C01" }

func (monC01) TaskEnd(s *Sim, t *Task) {
	if t.Ctrl != CtrlERS {
		return
	}
	v := t.View()
	if !v.Full() || v.EDS == nil || v.ERS == nil {
		return
	}
	role := v.Role()
	canary := v.CanaryNodes()
	daemon := v.DaemonPods()
	byNode := map[string][]*corev1.Pod{}
	for _, p := range daemon {
		byNode[podNode(p)] = append(byNode[podNode(p)], p)
	}
	spec := &v.ERS.Spec.Template.Spec
	deleted := map[string]bool{}
	for _, c := range v.PodDeletes {
		deleted[c.NS+"/"+c.Name] = true
	}

	// M1, M2: creates
	created := map[string]int{}
	for _, c := range v.PodCreates {
		s.Stats.NonVacuous["C01.create"]++
		created[c.Node]++
		if created[c.Node] == 2 {
			s.Violate("C01", "M2", "", "%s created two pods for node %s in one sync", t.Label(), c.Node)
		}
		n := v.Nodes[c.Node]
		if n == nil {
			s.Violate("C01", "M1", "missing-node", "%s created a pod for node %q which is not in the node list it read", t.Label(), c.Node)
			continue
		}
		if !eligibleSpec(n, spec) {
			s.Violate("C01", "M1", "ineligible", "%s created a pod for ineligible node %s (labels=%v taints=%v)", t.Label(), c.Node, n.Labels, n.Spec.Taints)
		}
		for _, p := range byNode[c.Node] {
			if p.Status.Phase != corev1.PodFailed && p.Status.Phase != corev1.PodUnknown {
				s.Violate("C01", "M1", "occupied", "%s created a pod for node %s which already carries daemon pod %s (phase %s, terminating=%v) in the state it read", t.Label(), c.Node, p.Name, p.Status.Phase, terminating(p))
			}
		}
	}

	// M5: Unknown-phase pods are never deleted
	for _, c := range v.PodDeletes {
		for _, p := range v.Pods {
			if p.Namespace == c.NS && p.Name == c.Name && p.Status.Phase == corev1.PodUnknown {
				s.Violate("C01", "M5", "", "%s deleted pod %s whose phase is Unknown", t.Label(), p.Name)
			}
		}
	}

	if !t.CleanButPodPatches() || (role != "active" && role != "canary") {
		return
	}
	inScope := func(node string) bool {
		if role == "active" {
			return !canary[node]
		}
		return canary[node]
	}
	// M3: duplicates
	for _, node := range sortedKeys(byNode) {
		pods := byNode[node]
		n := v.Nodes[node]
		if n == nil || !eligibleSpec(n, spec) || !inScope(node) {
			continue
		}
		var cand []*corev1.Pod
		for _, p := range pods {
			if p.Status.Phase != corev1.PodFailed && p.Status.Phase != corev1.PodUnknown {
				cand = append(cand, p)
			}
		}
		if len(cand) < 2 {
			continue
		}
		s.Probe("c01.duplicates-seen")
		s.Stats.NonVacuous["C01.dup"]++
		// a Failed pod held back by the back-off may rank first for the code; then the
		// statement does not say which of the others is kept
		hasFailed := len(cand) != len(pods)
		keeperOrder(cand)
		keeper := cand[0]
		survivors := 0
		for i, p := range cand {
			if terminating(p) || deleted[p.Namespace+"/"+p.Name] {
				continue
			}
			survivors++
			if i == 0 {
				continue
			}
			if sameKeeperRank(p, keeper) && (terminating(keeper) || deleted[keeper.Namespace+"/"+keeper.Name]) {
				continue // tie: either may be kept
			}
			_ = hasFailed
			s.Violate("C01", "M3", "", "%s left duplicate pod %s on node %s alive (keeper %s)", t.Label(), p.Name, node, keeper.Name)
		}
		if survivors > 1 {
			s.Violate("C01", "M3", "survivors", "%s left %d live daemon pods on node %s", t.Label(), survivors, node)
		}
		if !terminating(keeper) && deleted[keeper.Namespace+"/"+keeper.Name] {
			// the keeper may be deleted for updating, but then a lower-ranked one must not survive
			for _, p := range cand[1:] {
				if !terminating(p) && !deleted[p.Namespace+"/"+p.Name] && !sameKeeperRank(p, keeper) {
					s.Violate("C01", "M3", "wrong-keeper", "%s deleted keeper %s on node %s but kept %s", t.Label(), keeper.Name, node, p.Name)
				}
			}
		}
	}
	// M4: pods on nodes that are missing or not eligible any more (demanded of the active
	// role only: the statement does not say whose template decides during a canary)
	for _, node := range sortedKeys(byNode) {
		pods := byNode[node]
		if role != "active" {
			break
		}
		n := v.Nodes[node]
		if n != nil && eligibleSpec(n, spec) {
			continue
		}
		if role == "active" && canary[node] {
			continue
		}
		for _, p := range pods {
			if p.Status.Phase == corev1.PodUnknown || terminating(p) {
				continue
			}
			s.Stats.NonVacuous["C01.ineligible"]++
			if !deleted[p.Namespace+"/"+p.Name] {
				why := "missing"
				if n != nil {
					why = fmt.Sprintf("ineligible (labels=%v taints=%v)", n.Labels, n.Spec.Taints)
				}
				s.Violate("C01", "M4", "", "%s did not delete pod %s on node %q which is %s", t.Label(), p.Name, node, why)
			}
		}
	}
}
