#!/bin/bash
# dev helper: mutant.sh <worktree-dir> <prop> [<prop> ...]  -- runs quick checks against a scratch worktree
D=$1; shift
for p in "$@"; do
  echo "=== $p against $D"
  VERIF_REPO=$D /verif/check $p ${TIER:-quick} 2>&1 | grep -E "VIOLATION|KNOWN|^check|CHECK-ERROR|monitor=" | cut -c1-400
done
