package sim

// C12 — an ExtendedDaemonSet only touches its own objects.

import (
	"encoding/json"

	corev1 "k8s.io/api/core/v1"
	metav1 "k8s.io/apimachinery/pkg/apis/meta/v1"

	edsv1 "github.com/DataDog/extendeddaemonset/api/v1alpha1"
)

type monC12 struct{ baseMon }

func (monC12) Name() string { return "C12" }

type objMeta struct {
	Metadata metav1.ObjectMeta `json:"metadata"`
}

func metaOf(b []byte) *metav1.ObjectMeta {
	if b == nil {
		return nil
	}
	var m objMeta
	_ = json.Unmarshal(b, &m)
	return &m.Metadata
}

func ownerUID(md *metav1.ObjectMeta, kind string) string {
	for _, r := range md.OwnerReferences {
		if r.Kind == kind {
			return string(r.UID)
		}
	}
	return ""
}

// ownerEDS resolves the ExtendedDaemonSet a controller task works for.
func (s *Sim) ownerEDS(t *Task) *edsv1.ExtendedDaemonSet {
	switch t.Ctrl {
	case CtrlEDS, CtrlPodTpl:
		// the object the task read, else the stored one
		if v := t.View(); v.EDS != nil {
			return v.EDS
		}
		return s.Store.GetEDS(t.Key.Namespace, t.Key.Name)
	case CtrlERS:
		// independently of the code's own resolution: the owner reference of the stored
		// replica set, by UID
		v := t.View()
		r := v.ERS
		if r == nil {
			r = s.Store.GetERS(t.Key.Namespace, t.Key.Name)
		}
		if r != nil {
			uid := ownerUID(&r.ObjectMeta, "ExtendedDaemonSet")
			for _, e := range s.Store.EDSs() {
				if string(e.UID) == uid {
					return e
				}
			}
		}
		if v.EDS != nil && r != nil && string(v.EDS.UID) == ownerUID(&r.ObjectMeta, "ExtendedDaemonSet") {
			return v.EDS
		}
	}
	return nil
}

func (monC12) PreCall(s *Sim, c *Call) {
	t := c.Task
	if !c.IsWrite() || t.Ctrl == CtrlCLI || t.Crashed {
		return
	}
	if t.Ctrl == CtrlSetting {
		if c.Kind != KSetting || c.NS != t.Key.Namespace || c.Name != t.Key.Name || c.Verb != "updatestatus" {
			s.Violate("C12", "write-set", "setting", "%s issued %s", t.Label(), c.Desc())
		}
		return
	}
	e := s.ownerEDS(t)
	if e == nil {
		// a write before the owner was read: only the ERS's own status is legitimate
		if t.Ctrl == CtrlERS && c.Kind == KERS && c.Name == t.Key.Name && c.NS == t.Key.Namespace {
			return
		}
		s.Violate("C12", "write-set", "no-owner", "%s issued %s without having read its ExtendedDaemonSet", t.Label(), c.Desc())
		return
	}
	s.Stats.NonVacuous["C12.write"]++
	bad := func(why string) {
		s.Violate("C12", "write-set", c.Kind+"."+c.Verb, "%s (for %s/%s uid %s) issued %s: %s", t.Label(), e.Namespace, e.Name, e.UID, c.Desc(), why)
	}
	var target *metav1.ObjectMeta
	if c.Verb == "create" {
		b, _ := json.Marshal(c.Obj)
		target = metaOf(b)
	} else {
		b, err := s.Store.Get(c.Kind, c.NS, c.Name)
		if err != nil {
			return // nothing there: nothing foreign is touched
		}
		target = metaOf(b)
	}
	switch c.Kind {
	case KEDS:
		if target.Namespace != e.Namespace || target.Name != e.Name {
			bad("another ExtendedDaemonSet")
		}
	case KERS:
		if target.Namespace != e.Namespace || ownerUID(target, "ExtendedDaemonSet") != string(e.UID) {
			bad("replica set not owned by this ExtendedDaemonSet")
		}
	case KPodTpl:
		if target.Namespace != e.Namespace || target.Name != e.Name {
			bad("foreign PodTemplate")
		}
	case KPod:
		// the declared migration: as stored now, or as this reconcile read it (the user may
		// cancel or retarget the migration while a sync is under way)
		olds := []string{e.Annotations[edsv1.ExtendedDaemonSetOldDaemonsetAnnotationKey]}
		if v := t.View(); v.EDS != nil && v.EDS.UID == e.UID {
			olds = append(olds, v.EDS.Annotations[edsv1.ExtendedDaemonSetOldDaemonsetAnnotationKey])
		}
		own := target.Namespace == e.Namespace && target.Labels[edsv1.ExtendedDaemonSetNameLabelKey] == e.Name
		migrated := false
		for _, old := range olds {
			if old != "" && target.Namespace == e.Namespace {
				for _, r := range target.OwnerReferences {
					if r.Kind == "DaemonSet" && r.Name == old {
						migrated = true
					}
				}
			}
		}
		if !own && !migrated {
			bad("pod is not a daemon pod of this ExtendedDaemonSet")
		}
	default:
		bad("unexpected kind")
	}
}

// status: names and counters only from own replica sets
func (monC12) TaskEnd(s *Sim, t *Task) {
	if t.Ctrl != CtrlEDS || !t.Successful() {
		return
	}
	v := t.View()
	if v.EDS == nil || !v.ERSRead {
		return
	}
	var written *edsv1.ExtendedDaemonSet
	for _, c := range v.StatusWrites {
		if c.Kind == KEDS && c.Err == nil {
			written = &edsv1.ExtendedDaemonSet{}
			_ = json.Unmarshal(c.Out, written)
		}
	}
	if written == nil {
		return
	}
	own := map[string]*edsv1.ExtendedDaemonSetReplicaSet{}
	var cur, ready, avail int32
	foreign := false
	for _, r := range v.ERSList {
		if r.Namespace == v.EDS.Namespace && ownerUID(&r.ObjectMeta, "ExtendedDaemonSet") == string(v.EDS.UID) {
			own[r.Name] = r
			cur += r.Status.Current
			ready += r.Status.Ready
			avail += r.Status.Available
		} else {
			foreign = true
		}
	}
	if !foreign {
		return
	}
	s.Stats.NonVacuous["C12.foreign-listed"]++
	st := written.Status
	if st.ActiveReplicaSet != "" && own[st.ActiveReplicaSet] == nil {
		s.Violate("C12", "status", "active", "%s recorded active replica set %s which it does not own", t.Label(), st.ActiveReplicaSet)
	}
	if st.Canary != nil && st.Canary.ReplicaSet != "" && own[st.Canary.ReplicaSet] == nil {
		s.Violate("C12", "status", "canary", "%s recorded canary replica set %s which it does not own", t.Label(), st.Canary.ReplicaSet)
	}
	if st.Current != cur || st.Ready != ready || st.Available != avail {
		s.Violate("C12", "status", "counters", "%s: counters current=%d ready=%d available=%d but its own replica sets sum to %d/%d/%d", t.Label(), st.Current, st.Ready, st.Available, cur, ready, avail)
	}
}

var _ = corev1.Pod{}
