#!/bin/bash
# dev helper: sweep.sh PROFILE FROM TO [seed]  -> summary of violations
export GOFLAGS=-mod=mod GOPROXY=off GOSUMDB=off GOTOOLCHAIN=local
P=$1; FROM=$2; TO=$3; SEED=${4:-1}
rm -rf /tmp/rp_$P; mkdir -p /tmp/rp_$P
N=16; STEP=$(( (TO-FROM+N-1)/N ))
for w in $(seq 0 $((N-1))); do
  a=$((FROM+w*STEP)); b=$((a+STEP)); [ $b -gt $TO ] && b=$TO
  [ $a -ge $TO ] && continue
  (cd /tmp && VERIF_TIER=${TIER:-quick} VERIF_SEED=$SEED VERIF_MODE=batch VERIF_PROFILE=$P VERIF_FROM=$a VERIF_TO=$b VERIF_REPLAY_DIR=/tmp/rp_$P ${SIMBIN:-/verif/bin/sim.test} -test.run TestWorker -test.cpu 1 -test.timeout 6h > /tmp/out_$P.$w.txt 2>&1) &
done
wait
cat /tmp/out_$P.*.txt > /tmp/out_$P.txt; rm -f /tmp/out_$P.*.txt
python3 - "$P" <<'PY'
import json,collections,sys
P=sys.argv[1]
c=collections.Counter(); ex={}; eng=0; runs=0; nv=collections.Counter(); pr=collections.Counter(); fl=collections.Counter()
last=None
for l in open('/tmp/out_%s.txt'%P):
    if l.startswith('START'): last=l.strip()
    if l.startswith('panic') or l.startswith('fatal'): print('CRASH after',last,l.strip())
    if l.startswith('RUN '):
        d=json.loads(l[4:]); runs+=1
        if d.get('engine_err'):
            eng+=1
            if eng<3: print(d['i'],d['engine_err'][:600])
        for k,v in (d.get('nonvac') or {}).items(): nv[k]+=1
        for k,v in (d.get('probes') or {}).items(): pr[k]+=v
        for k,v in (d.get('faults') or {}).items(): fl[k]+=v
        for v in d.get('violations') or []:
            k=(v['prop'],v['monitor'],v.get('sig',''))
            c[k]+=1; ex.setdefault(k,(d['i'],v['msg']))
print('runs',runs,'engine errors',eng)
print('nonvac',dict(nv)); print('probes',dict(pr)); print('faults',dict(fl))
for k,n in sorted(c.items()): print(n,k,ex[k])
PY
