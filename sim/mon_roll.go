package sim

// Rolling-update monitors: C03 (availability budget), C08 (pause/freeze), C09 (rate limits),
// C04 (canary confinement).

import (
	"encoding/json"
	"time"

	corev1 "k8s.io/api/core/v1"

	edsv1 "github.com/DataDog/extendeddaemonset/api/v1alpha1"
)

// syncFacts: what the oracles need from the read view of a full ERS sync.
type syncFacts struct {
	role      string
	canary    map[string]bool
	byNode    map[string][]*corev1.Pod // non-Unknown daemon pods per node
	targeted  []string                 // eligible nodes in scope of this role
	isTarget  map[string]bool
	updateDel []*corev1.Pod
	cleanDel  []*corev1.Pod
	deleted   map[string]bool
}

func facts(v *SyncView) *syncFacts {
	f := &syncFacts{role: v.Role(), canary: v.CanaryNodes(), byNode: map[string][]*corev1.Pod{}, isTarget: map[string]bool{}, deleted: map[string]bool{}}
	for _, p := range v.DaemonPods() {
		if p.Status.Phase == corev1.PodUnknown {
			continue
		}
		f.byNode[podNode(p)] = append(f.byNode[podNode(p)], p)
	}
	spec := &v.ERS.Spec.Template.Spec
	for _, n := range v.NodeList {
		if !eligibleSpec(n, spec) {
			continue
		}
		in := !f.canary[n.Name]
		if f.role == "canary" {
			in = f.canary[n.Name]
		}
		if in {
			f.targeted = append(f.targeted, n.Name)
			f.isTarget[n.Name] = true
		}
	}
	for _, c := range v.PodDeletes {
		f.deleted[c.NS+"/"+c.Name] = true
		var pod *corev1.Pod
		for _, p := range v.Pods {
			if p.Namespace == c.NS && p.Name == c.Name {
				pod = p
			}
		}
		if pod == nil {
			if c.Pre != nil {
				pod = &corev1.Pod{}
				_ = json.Unmarshal(c.Pre, pod)
			} else {
				continue
			}
		}
		node := podNode(pod)
		n := v.Nodes[node]
		switch {
		case pod.Status.Phase == corev1.PodFailed, n == nil, !eligibleSpec(n, spec), len(f.byNode[node]) >= 2:
			f.cleanDel = append(f.cleanDel, pod)
		default:
			f.updateDel = append(f.updateDel, pod)
		}
	}
	return f
}

func edsFreq(e *edsv1.ExtendedDaemonSet) time.Duration {
	if e.Spec.Strategy.ReconcileFrequency != nil {
		return e.Spec.Strategy.ReconcileFrequency.Duration
	}
	return 10 * time.Second
}

// stuck: unscheduled for more than 10 minutes, or Terminating past its grace period.
func stuckPod(p *corev1.Pod, now time.Time) bool {
	if p.Spec.NodeName == "" && now.Sub(p.CreationTimestamp.Time) > 10*time.Minute {
		return true
	}
	if p.DeletionTimestamp != nil && p.DeletionGracePeriodSeconds != nil && now.Sub(p.DeletionTimestamp.Time) > time.Duration(*p.DeletionGracePeriodSeconds)*time.Second {
		return true
	}
	return false
}

type monRoll struct {
	baseMon
	lastOps     map[string]time.Time // ERS -> start of last sync with pod ops and a successful status write
	lastWrite   map[string]uint64    // ERS -> sequence number of that sync's status write
	activeSince map[string]time.Time // ERS -> start of the first active-role sync after a recorded inactive one
	inactive    map[string]bool      // ERS -> its last successfully recorded sync was not in the active role
}

func (*monRoll) Name() string { return "roll" }

func (m *monRoll) TaskEnd(s *Sim, t *Task) {
	if t.Ctrl != CtrlERS {
		return
	}
	v := t.View()
	if !v.Full() || v.EDS == nil || v.ERS == nil {
		return
	}
	for _, c := range v.PodPatches {
		// label clean-up after a promotion concerns the replica set's own former canary pods
		if p := podOfCall(c); p != nil && c.Applied() && p.Labels[edsv1.ExtendedDaemonSetReplicaSetNameLabelKey] != v.ERS.Name && isDaemonPod(p, v.EDS.Namespace, v.EDS.Name) {
			s.Violate("C04", "M5", "foreign-label-patch", "%s (%s) patched pod %s, which belongs to replica set %s", t.Label(), v.Role(), p.Name, p.Labels[edsv1.ExtendedDaemonSetReplicaSetNameLabelKey])
		}
	}
	m.checkLabelKept(s, t, v)
	f := facts(v)
	ru := v.EDS.Spec.Strategy.RollingUpdate
	ann := v.EDS.Annotations
	nT := len(f.targeted)
	// when did this replica set (re)become active, as far as its own syncs could observe?
	if m.activeSince == nil {
		m.activeSince, m.inactive = map[string]time.Time{}, map[string]bool{}
	}
	ek := t.Key.String()
	wroteStatus := false
	for _, c := range v.StatusWrites {
		if c.Kind == KERS && c.Applied() {
			wroteStatus = true
		}
	}
	if f.role == "active" {
		if m.inactive[ek] {
			m.activeSince[ek] = t.StartAt
			m.inactive[ek] = false
		}
	} else if wroteStatus {
		m.inactive[ek] = true
		delete(m.activeSince, ek)
	}

	// ---- C04: confinement ----
	switch f.role {
	case "other":
		if len(v.PodCreates)+len(v.PodDeletes) > 0 {
			s.Violate("C04", "M1", "other-role", "%s is neither active nor canary in the status it read but issued %d creates and %d deletes", t.Label(), len(v.PodCreates), len(v.PodDeletes))
		}
	case "canary":
		s.Stats.NonVacuous["C04.canary-sync"]++
		for _, c := range v.PodCreates {
			if !f.canary[c.Node] {
				s.Violate("C04", "M1", "outside", "%s (canary) created a pod on node %s, canary nodes are %v", t.Label(), c.Node, v.EDS.Status.Canary.Nodes)
			}
		}
		// every other eligible node keeps being served with the active template: the canary
		// role must not take away the only pod of a non-canary node that pod is entitled to
		for _, c := range v.PodDeletes {
			for _, p := range v.Pods {
				if p.Namespace != c.NS || p.Name != c.Name {
					continue
				}
				node := podNode(p)
				n := v.Nodes[node]
				if f.canary[node] || n == nil || len(f.byNode[node]) != 1 || p.Status.Phase == corev1.PodFailed {
					continue
				}
				if p.Labels[edsv1.ExtendedDaemonSetReplicaSetNameLabelKey] == v.EDS.Status.ActiveReplicaSet && eligibleSpec(n, &p.Spec) {
					s.Violate("C04", "M4", "canary-deletes-outside", "%s (canary) deleted pod %s of the active replica set on node %s, which is not a canary node and is eligible for that pod", t.Label(), p.Name, node)
				}
			}
		}
	case "active":
		if len(f.canary) > 0 {
			s.Stats.NonVacuous["C04.active-with-canary"]++
		}
		for _, c := range v.PodCreates {
			if f.canary[c.Node] {
				s.Violate("C04", "M3", "create", "%s (active) created a pod on canary node %s", t.Label(), c.Node)
			}
		}
		for _, p := range append(append([]*corev1.Pod{}, f.updateDel...), f.cleanDel...) {
			if f.canary[podNode(p)] {
				s.Violate("C04", "M3", "delete", "%s (active) deleted pod %s on canary node %s", t.Label(), p.Name, podNode(p))
			}
		}
	}

	// ---- C08: pause / freeze ----
	if f.role == "active" {
		paused := annTrue(ann, edsv1.ExtendedDaemonSetRollingUpdatePausedAnnotationKey)
		frozen := annTrue(ann, edsv1.ExtendedDaemonSetRolloutFrozenAnnotationKey)
		if paused || frozen {
			s.Stats.NonVacuous["C08.paused-or-frozen-sync"]++
		}
		if paused && len(f.updateDel) > 0 {
			s.Violate("C08", "paused", "", "%s deleted %d pods for updating while rolling-update-paused is true (%s)", t.Label(), len(f.updateDel), f.updateDel[0].Name)
		}
		if frozen && len(f.updateDel) > 0 {
			s.Violate("C08", "frozen", "delete", "%s deleted %d pods for updating while rollout-frozen is true", t.Label(), len(f.updateDel))
		}
		if frozen && len(v.PodCreates) > 0 {
			s.Violate("C08", "frozen", "create", "%s created %d pods while rollout-frozen is true", t.Label(), len(v.PodCreates))
		}
	}
	if f.role == "canary" {
		pausedAnn := annTrue(ann, edsv1.ExtendedDaemonSetCanaryPausedAnnotationKey)
		pausedCond := ersCondTrue(&v.ERS.Status, edsv1.ConditionTypeCanaryPaused)
		unpaused := annTrue(ann, edsv1.ExtendedDaemonSetCanaryUnpausedAnnotationKey)
		failed := ersCondTrue(&v.ERS.Status, edsv1.ConditionTypeCanaryFailed)
		if (pausedAnn || pausedCond) && !unpaused {
			s.Stats.NonVacuous["C08.paused-canary-sync"]++
			if len(v.PodCreates) > 0 {
				s.Violate("C08", "canary-paused", "", "%s created %d canary pods while the canary is paused (annotation=%v condition=%v)", t.Label(), len(v.PodCreates), pausedAnn, pausedCond)
			}
		}
		if failed && len(v.PodCreates) > 0 {
			s.Violate("C06", "failed-create", "", "%s created %d canary pods although Canary-Failed was true in the status it read", t.Label(), len(v.PodCreates))
		}
	}

	// ---- C09 / C03: limits of the active role ----
	if f.role == "active" {
		if maxU, ok := resolvePct(ru.MaxUnavailable, nT, true); ok && nT > 0 && maxU >= 0 {
			if len(f.updateDel) > 0 {
				s.Stats.NonVacuous["C09.update-del"]++
			}
			if len(f.updateDel) > maxU {
				s.Violate("C09", "max-unavailable", "", "%s deleted %d pods for updating, maxUnavailable resolves to %d of %d nodes", t.Label(), len(f.updateDel), maxU, nT)
				s.Violate("C03", "M3", "", "%s deleted %d pods for updating, maxUnavailable resolves to %d of %d nodes", t.Label(), len(f.updateDel), maxU, nT)
			}
			m.checkBudget(s, t, v, f, maxU)
		}
		inc, ok1 := resolvePct(ru.SlowStartAdditiveIncrease, nT, true)
		if ok1 && inc >= 0 && ru.MaxParallelPodCreation != nil && *ru.MaxParallelPodCreation >= 0 && ru.SlowStartIntervalDuration != nil && ru.SlowStartIntervalDuration.Duration > 0 {
			var el time.Duration
			if ac := ersCond(&v.ERS.Status, edsv1.ConditionTypeActive); ac != nil && ac.Status == corev1.ConditionTrue {
				el = t.StartAt.Sub(ac.LastTransitionTime.Time) + time.Second + absDur(time.Duration(s.W.Cfg.SkewSec)*time.Second)
				if el < 0 {
					el = 0
				}
				// the condition cannot have become true before the replica set became active again
				// after a recorded inactive sync
				if since, ok := m.activeSince[ek]; ok {
					if obs := t.StartAt.Sub(since) + time.Second + absDur(time.Duration(s.W.Cfg.SkewSec)*time.Second); obs < el {
						if obs+time.Second < el {
							s.Probe("c09.condition-older-than-activation")
						}
						el = obs
					}
				}
			}
			limit := (1 + int(el/ru.SlowStartIntervalDuration.Duration)) * inc
			if int(*ru.MaxParallelPodCreation) < limit {
				limit = int(*ru.MaxParallelPodCreation)
			}
			if len(v.PodCreates) > 0 {
				s.Stats.NonVacuous["C09.creates"]++
				if len(v.PodCreates) == limit {
					s.Probe("c09.cap-reached")
				}
			}
			if len(v.PodCreates) > limit {
				s.Violate("C09", "slow-start", "", "%s created %d pods; cap is min(%d, (1+floor(%v/%v))*%d) = %d", t.Label(), len(v.PodCreates), *ru.MaxParallelPodCreation, el, ru.SlowStartIntervalDuration.Duration, inc, limit)
			}
		}
	}

	// ---- C09: spacing of syncs that act on pods ----
	if m.lastOps == nil {
		m.lastOps = map[string]time.Time{}
	}
	key := t.Key.String()
	if len(v.PodCreates)+len(v.PodDeletes) > 0 {
		// "as long as its status writes succeed": a sync whose status write failed does not count;
		// one that issued none at all does (nothing failed)
		okWrite := true
		var writeSeq uint64
		for _, c := range v.StatusWrites {
			if c.Kind == KERS && !c.Applied() {
				okWrite = false
			}
			if c.Kind == KERS && c.Applied() {
				writeSeq = c.Seq
			}
		}
		if t.Crashed || t.Panic != nil {
			okWrite = false
		}
		// A sync that read the replica set before the previous acting sync had recorded itself (two
		// controller instances overlapping) could not know about it: the pair is judged only if this
		// sync's own status write went through as well - the optimistic lock is what makes it fail.
		var readSeq uint64
		for _, c := range t.Calls {
			if c.Verb == "get" && c.Kind == KERS && c.Err == nil {
				readSeq = c.Seq
				break
			}
		}
		overlapped := m.lastWrite != nil && readSeq < m.lastWrite[key]
		if last, ok := m.lastOps[key]; ok && (!overlapped || okWrite) {
			s.Stats.NonVacuous["C09.spacing"]++
			if overlapped {
				s.Stats.NonVacuous["C09.spacing-overlapped"]++
			}
			gap := t.StartAt.Sub(last)
			if gap < edsFreq(v.EDS)-time.Second {
				s.Violate("C09", "spacing", "", "%s acted on pods %v after its previous acting sync (reconcileFrequency %v)", t.Label(), gap, edsFreq(v.EDS))
			}
		}
		if m.lastWrite == nil {
			m.lastWrite = map[string]uint64{}
		}
		if okWrite {
			m.lastOps[key] = t.StartAt
			m.lastWrite[key] = writeSeq
		} else if !overlapped {
			delete(m.lastOps, key)
			delete(m.lastWrite, key)
		}
	}
}

// checkBudget: C03 M1/M2.
func (m *monRoll) checkBudget(s *Sim, t *Task, v *SyncView, f *syncFacts, maxU int) {
	ru := v.EDS.Spec.Strategy.RollingUpdate
	now := t.StartAt
	nT := len(f.targeted)
	unavailable, stuck := 0, 0
	for _, node := range f.targeted {
		avail := false
		st := false
		for _, p := range f.byNode[node] {
			// an outdated pod that is already being deleted is a replacement in progress: its
			// node counts as unavailable, Ready or not (otherwise every sync could take
			// maxUnavailable more nodes down while the previous ones are still terminating);
			// an up-to-date Terminating pod is judged leniently by its Ready condition
			outdatedTerminating := terminating(p) && letterOfPod(p) != letterOfTpl(&v.ERS.Spec.Template)
			// a pod Terminating past its grace period is stuck (its node stopped answering): a Ready
			// condition it still shows is stale, the node has no available pod
			if podReady(p) && !outdatedTerminating && !stuckPod(p, now) {
				avail = true
			}
			if stuckPod(p, now) {
				st = true
			}
		}
		if !avail {
			unavailable++
			if st {
				stuck++
			}
		}
	}
	tol, _ := resolvePct(ru.MaxPodSchedulerFailure, nT, true)
	if stuck < tol {
		tol = stuck
	}
	u := unavailable - tol
	budget := maxU - u
	if budget < 0 {
		budget = 0
	}
	availDel := 0
	for _, p := range f.updateDel {
		if podReady(p) {
			availDel++
		}
	}
	if len(f.updateDel) > 0 {
		s.Stats.NonVacuous["C03.update-del"]++
		if u > 0 {
			s.Probe("c03.budget-partly-used")
		}
	}
	if availDel > budget {
		sig := "budget"
		s.Violate("C03", "M1", sig, "%s deleted %d available pods; %d of %d targeted nodes already lack an available pod (%d stuck tolerated), maxUnavailable %d leaves %d", t.Label(), availDel, unavailable, nT, tol, maxU, budget)
	}
	if availDel > 0 {
		// unavailable outdated pods must be replaced first
		for _, node := range f.targeted {
			ps := f.byNode[node]
			if len(ps) != 1 {
				continue
			}
			p := ps[0]
			if terminating(p) || podReady(p) || p.Status.Phase == corev1.PodFailed || stuckPod(p, now) {
				continue
			}
			if p.Annotations[hashKey] == v.ERS.Spec.TemplateGeneration {
				continue // up to date (judged by the recorded hash: identity of the replica set's pods)
			}
			if letterOfPod(p) == letterOfTpl(&v.ERS.Spec.Template) {
				continue
			}
			if !f.deleted[p.Namespace+"/"+p.Name] {
				s.Violate("C03", "M2", "unavailable-first", "%s deleted an available pod while outdated unavailable pod %s on %s was left in place", t.Label(), p.Name, node)
			}
		}
	}
}

// checkLabelKept: a sync of the active replica set that computed its status (so it went through the
// whole rolling-update step) shortly after the promotion must try to remove the canary label from
// each of its pods that carries it - whatever else failed in that sync.
func (m *monRoll) checkLabelKept(s *Sim, t *Task, v *SyncView) {
	if v.Role() != "active" || t.Crashed || t.Panic != nil {
		return
	}
	computed := false
	for _, c := range v.StatusWrites {
		if c.Kind == KERS && c.Obj != nil {
			if st, _ := c.Obj["status"].(map[string]interface{}); st != nil && st["status"] == "active" {
				computed = true
			}
		}
	}
	if !computed {
		return
	}
	start := t.StartAt
	for i := range v.ERS.Status.Conditions {
		if c := &v.ERS.Status.Conditions[i]; c.Type == edsv1.ConditionTypeActive && c.Status == corev1.ConditionTrue {
			start = c.LastTransitionTime.Time
		}
	}
	if !s.Now().Before(start.Add(5*time.Minute - 15*time.Second)) {
		return // the window in which the labels are cleaned may be over
	}
	for _, c := range t.Calls {
		if c.Verb == "list" && c.Kind == KPod && c.Err != nil {
			return // the labelled pods could not be listed
		}
	}
	patched := map[string]bool{}
	for _, c := range v.PodPatches {
		patched[c.NS+"/"+c.Name] = true
	}
	for _, p := range v.Pods {
		if p.Namespace != v.ERS.Namespace || p.Labels[edsv1.ExtendedDaemonSetReplicaSetNameLabelKey] != v.ERS.Name {
			continue
		}
		if _, has := p.Labels[canaryLabel]; !has || patched[p.Namespace+"/"+p.Name] {
			continue
		}
		cur := s.Store.GetPod(p.Namespace, p.Name)
		if cur == nil || string(cur.UID) != string(p.UID) {
			continue
		}
		if _, still := cur.Labels[canaryLabel]; !still {
			continue
		}
		s.Stats.NonVacuous["C04.label-window"]++
		s.Violate("C04", "M5", "label-kept", "%s (active since %s) went through its rolling-update step but did not try to remove the canary label from its pod %s", t.Label(), start.Format(time.RFC3339), p.Name)
	}
}
