package sim

// Environment actors (stubs): scheduler/kubelet, garbage collectors, cluster admin, user.
// Each produces Actions whose key names what it does; only the driver applies them.

import (
	"fmt"
	"strings"
	"time"

	corev1 "k8s.io/api/core/v1"
	metav1 "k8s.io/apimachinery/pkg/apis/meta/v1"

	edsv1 "github.com/DataDog/extendeddaemonset/api/v1alpha1"
)

func (s *Sim) kubeletNow() metav1.Time {
	return metav1.NewTime(s.Now().Add(time.Duration(s.W.Cfg.KubeletSkewSec) * time.Second))
}

func setPodCond(p *corev1.Pod, t corev1.PodConditionType, st corev1.ConditionStatus, reason string, now metav1.Time) {
	for i := range p.Status.Conditions {
		if p.Status.Conditions[i].Type == t {
			if p.Status.Conditions[i].Status != st {
				p.Status.Conditions[i].Status = st
				p.Status.Conditions[i].LastTransitionTime = now
			}
			p.Status.Conditions[i].Reason = reason
			return
		}
	}
	p.Status.Conditions = append(p.Status.Conditions, corev1.PodCondition{Type: t, Status: st, Reason: reason, LastTransitionTime: now})
}

func (s *Sim) podBindable(p *corev1.Pod) bool {
	if p.Spec.NodeName != "" {
		return false
	}
	n := s.Store.GetNode(podNode(p))
	return n != nil && eligibleSpec(n, &p.Spec)
}

func (s *Sim) kBind(p *corev1.Pod) {
	p.Spec.NodeName = podNode(p)
	setPodCond(p, corev1.PodScheduled, corev1.ConditionTrue, "", s.kubeletNow())
	s.Store.ForceUpdate(p)
}

func (s *Sim) kStart(p *corev1.Pod) {
	now := s.kubeletNow()
	p.Status.StartTime = &now
	p.Status.Phase = corev1.PodPending
	setPodCond(p, corev1.PodScheduled, corev1.ConditionTrue, "", now)
	setPodCond(p, corev1.PodReady, corev1.ConditionFalse, "ContainersNotReady", now)
	p.Status.ContainerStatuses = nil
	for _, c := range p.Spec.Containers {
		p.Status.ContainerStatuses = append(p.Status.ContainerStatuses, corev1.ContainerStatus{Name: c.Name, Image: c.Image, State: corev1.ContainerState{Waiting: &corev1.ContainerStateWaiting{Reason: "ContainerCreating"}}})
	}
	s.Store.ForceUpdate(p)
}

func (s *Sim) kRun(p *corev1.Pod) {
	now := s.kubeletNow()
	if p.Status.StartTime == nil {
		p.Status.StartTime = &now
	}
	p.Status.Phase = corev1.PodRunning
	old := p.Status.ContainerStatuses
	p.Status.ContainerStatuses = nil
	// a template whose pods run but never pass their readiness probe
	ready := s.W.Extra["neverReady"] == "" || letterOfPod(p) != s.W.Extra["neverReady"]
	for _, c := range p.Spec.Containers {
		cs := corev1.ContainerStatus{Name: c.Name, Image: c.Image, Ready: ready, State: corev1.ContainerState{Running: &corev1.ContainerStateRunning{StartedAt: now}}}
		for _, o := range old {
			if o.Name == c.Name {
				cs.RestartCount = o.RestartCount
				cs.LastTerminationState = o.LastTerminationState
			}
		}
		p.Status.ContainerStatuses = append(p.Status.ContainerStatuses, cs)
	}
	setPodCond(p, corev1.PodScheduled, corev1.ConditionTrue, "", now)
	if ready {
		setPodCond(p, corev1.PodReady, corev1.ConditionTrue, "", now)
	} else {
		setPodCond(p, corev1.PodReady, corev1.ConditionFalse, "ContainersNotReady", now)
	}
	s.Store.ForceUpdate(p)
}

// kSettle: bind (if possible), start and run in one go.
func (s *Sim) kSettle(p *corev1.Pod) bool {
	if p.DeletionTimestamp != nil || p.Status.Phase == corev1.PodFailed || p.Status.Phase == corev1.PodUnknown || p.Status.Phase == corev1.PodSucceeded {
		return false
	}
	if p.Spec.NodeName == "" {
		if !s.podBindable(p) {
			return false
		}
		p.Spec.NodeName = podNode(p)
	} else if s.Store.GetNode(p.Spec.NodeName) == nil {
		return false
	}
	if p.Status.Phase == corev1.PodRunning && podReady(p) {
		return false
	}
	if p.Status.Phase == corev1.PodRunning && s.W.Extra["neverReady"] != "" && letterOfPod(p) == s.W.Extra["neverReady"] && len(p.Status.ContainerStatuses) > 0 && p.Status.ContainerStatuses[0].State.Running != nil {
		return false // running and, as far as it will ever get, settled
	}
	s.kRun(p)
	return true
}

func (s *Sim) kRestart(p *corev1.Pod, reason string) {
	if len(p.Status.ContainerStatuses) == 0 {
		return
	}
	// which container restarts is a function of the pod's history (no PRNG draw in actors)
	total := 0
	for _, x := range p.Status.ContainerStatuses {
		total += int(x.RestartCount)
	}
	s.kRestartContainer(p, int(hash64(p.Name, fmt.Sprint(total))%uint64(len(p.Status.ContainerStatuses))), reason)
}

func (s *Sim) kRestartContainer(p *corev1.Pod, idx int, reason string) {
	now := s.kubeletNow()
	if idx >= len(p.Status.ContainerStatuses) {
		return
	}
	cs := &p.Status.ContainerStatuses[idx]
	cs.RestartCount++
	cs.Ready = false
	cs.LastTerminationState = corev1.ContainerState{Terminated: &corev1.ContainerStateTerminated{Reason: reason, ExitCode: 1, FinishedAt: now}}
	cs.State = corev1.ContainerState{Waiting: &corev1.ContainerStateWaiting{Reason: "CrashLoopBackOff"}}
	setPodCond(p, corev1.PodReady, corev1.ConditionFalse, "ContainersNotReady", now)
	s.Store.ForceUpdate(p)
}

func (s *Sim) kCannotStart(p *corev1.Pod, reason string) {
	now := s.kubeletNow()
	if p.Status.StartTime == nil {
		p.Status.StartTime = &now
	}
	p.Status.Phase = corev1.PodPending
	old := p.Status.ContainerStatuses
	p.Status.ContainerStatuses = nil
	for _, c := range p.Spec.Containers {
		cs := corev1.ContainerStatus{Name: c.Name, Image: c.Image, State: corev1.ContainerState{Waiting: &corev1.ContainerStateWaiting{Reason: reason}}}
		for _, o := range old {
			if o.Name == c.Name {
				cs.RestartCount = o.RestartCount
				cs.LastTerminationState = o.LastTerminationState
			}
		}
		p.Status.ContainerStatuses = append(p.Status.ContainerStatuses, cs)
	}
	setPodCond(p, corev1.PodReady, corev1.ConditionFalse, "ContainersNotReady", now)
	s.Store.ForceUpdate(p)
}

func (s *Sim) kPhase(p *corev1.Pod, ph corev1.PodPhase, reason string) {
	p.Status.Phase = ph
	p.Status.Reason = reason
	setPodCond(p, corev1.PodReady, corev1.ConditionFalse, "PodFailed", s.kubeletNow())
	s.Store.ForceUpdate(p)
}

func (s *Sim) podKey(p *corev1.Pod) string { return p.Namespace + "/" + p.Name }

func (s *Sim) kubeletActions(faults bool) []Action {
	var out []Action
	add := func(k string, f func()) { out = append(out, Action{A: "env", K: k, Do: f}) }
	for _, p := range s.Store.Pods() {
		p := p
		key := s.podKey(p)
		if p.DeletionTimestamp != nil {
			add("kubelet.finalize "+key, func() { s.Store.Remove(objKey{KPod, p.Namespace, p.Name}) })
			continue
		}
		if s.W.Cfg.Evictions && isAnyDaemonPod(p) {
			// drained / evicted / deleted by a user: Terminating within its grace period, still Ready
			add("admin.evict "+key, func() { _ = s.Store.Delete(KPod, p.Namespace, p.Name) })
		}
		if p.Status.Phase == corev1.PodFailed || p.Status.Phase == corev1.PodUnknown || p.Status.Phase == corev1.PodSucceeded {
			continue
		}
		if p.Spec.NodeName == "" {
			if s.podBindable(p) {
				add("sched.bind "+key, func() { s.kBind(p) })
			} else if faults || s.Store.GetNode(podNode(p)) != nil {
				add("sched.unschedulable "+key, func() {
					setPodCond(p, corev1.PodScheduled, corev1.ConditionFalse, corev1.PodReasonUnschedulable, s.kubeletNow())
					s.Store.ForceUpdate(p)
				})
			}
			if s.podBindable(p) {
				add("kubelet.settle "+key, func() { s.kSettle(p) })
			}
			continue
		}
		if s.Store.GetNode(p.Spec.NodeName) == nil {
			continue
		}
		running := p.Status.Phase == corev1.PodRunning
		if !running || !podReady(p) {
			add("kubelet.settle "+key, func() { s.kSettle(p) })
		}
		if p.Status.StartTime == nil {
			add("kubelet.start "+key, func() { s.kStart(p) })
		}
		if !faults {
			continue
		}
		if running && podReady(p) {
			add("kubelet.unready "+key, func() {
				setPodCond(p, corev1.PodReady, corev1.ConditionFalse, "ContainersNotReady", s.kubeletNow())
				s.Store.ForceUpdate(p)
			})
		}
		if len(p.Status.ContainerStatuses) > 0 {
			add("kubelet.restart "+key+" OOMKilled", func() { s.kRestart(p, "OOMKilled") })
			add("kubelet.restart "+key+" Error", func() { s.kRestart(p, "Error") })
		}
		if !running {
			add("kubelet.cannotstart "+key+" ImagePullBackOff", func() { s.kCannotStart(p, "ImagePullBackOff") })
			add("kubelet.cannotstart "+key+" CreateContainerConfigError", func() { s.kCannotStart(p, "CreateContainerConfigError") })
			add("kubelet.cannotstart "+key+" PodInitializing", func() { s.kCannotStart(p, "PodInitializing") })
		}
		add("kubelet.fail "+key, func() { s.kPhase(p, corev1.PodFailed, "Evicted") })
		add("kubelet.unknown "+key, func() { s.kPhase(p, corev1.PodUnknown, "NodeLost") })
	}
	return out
}

// settleAll: the benign kubelet of the quiesce phase.
func (s *Sim) settleAll() {
	for _, p := range s.Store.Pods() {
		if p.DeletionTimestamp != nil || p.Status.Phase == corev1.PodUnknown {
			// Terminating pods are finalised; pods of lost nodes (phase Unknown) are force
			// deleted by the pod garbage collector once the node is back or gone
			s.Store.Remove(objKey{KPod, p.Namespace, p.Name})
			continue
		}
		s.kSettle(p)
	}
}

// ---------------------------------------------------------------------------------------
// garbage collectors

func (s *Sim) gcOwners() int {
	n := 0
	// foreground deletion: the dependents of a Terminating replica set go first, then the replica set
	for _, r := range s.Store.ERSs() {
		if r.DeletionTimestamp == nil || len(r.Finalizers) != 1 || r.Finalizers[0] != "foregroundDeletion" {
			continue
		}
		left := 0
		for _, p := range s.Store.Pods() {
			if p.Namespace == r.Namespace && ownerUID(&p.ObjectMeta, "ExtendedDaemonSetReplicaSet") == string(r.UID) {
				if p.DeletionTimestamp == nil {
					_ = s.Store.Delete(KPod, p.Namespace, p.Name)
					n++
				}
				left++
			}
		}
		if left == 0 {
			s.Store.Remove(objKey{KERS, r.Namespace, r.Name})
			n++
		}
	}
	for pass := 0; pass < 3; pass++ {
		uids := map[string]bool{}
		for k := range s.Store.objs {
			m := toMap(s.Store.objs[k])
			uids[mstr(meta(m), "uid")] = true
		}
		for _, kind := range []string{KERS, KPod, KPodTpl} {
			for _, k := range s.Store.Keys(kind) {
				m := toMap(s.Store.objs[k])
				refs, _ := meta(m)["ownerReferences"].([]interface{})
				for _, r := range refs {
					rm, _ := r.(jmap)
					ctl, _ := rm["controller"].(bool)
					if ctl && !uids[mstr(rm, "uid")] {
						s.Store.Remove(k)
						n++
						break
					}
				}
			}
		}
	}
	return n
}

func (s *Sim) gcPods() int {
	n := 0
	for _, p := range s.Store.Pods() {
		if p.Spec.NodeName != "" && s.Store.GetNode(p.Spec.NodeName) == nil {
			s.Store.Remove(objKey{KPod, p.Namespace, p.Name})
			n++
		}
	}
	return n
}

func (s *Sim) gcActions() []Action {
	return []Action{
		{A: "env", K: "gc.owners", Do: func() { s.gcOwners() }},
		{A: "env", K: "gc.pods", Do: func() { s.gcPods() }},
	}
}

// ---------------------------------------------------------------------------------------
// cluster admin

func (s *Sim) overrideKey(e *EDSDef, container string) string {
	return fmt.Sprintf(edsv1.ExtendedDaemonSetRessourceNodeAnnotationKey, e.NS, e.Name, container)
}

func (s *Sim) adminActions() []Action {
	var out []Action
	add := func(k string, f func()) { out = append(out, Action{A: "env", K: k, Do: f}) }
	present := map[string]bool{}
	nodes := s.Store.Nodes()
	for _, n := range nodes {
		present[n.Name] = true
	}
	for _, nd := range append(append([]*NodeDef{}, s.W.Nodes...), s.W.SpareNodes...) {
		nd := nd
		if !present[nd.Name] {
			add("node.add "+nd.Name, func() { _, _ = s.Store.CreateObj(nd.Object()) })
		}
	}
	for _, n := range nodes {
		n := n
		add("node.del "+n.Name, func() { s.Store.Remove(objKey{KNode, "", n.Name}) })
		for _, lv := range nodeLabelVocab {
			lv := lv
			if _, has := n.Labels[lv.k]; has {
				add("node.unlabel "+n.Name+" "+lv.k, func() { delete(n.Labels, lv.k); s.Store.ForceUpdate(n) })
			} else {
				add("node.label "+n.Name+" "+lv.k+"="+lv.vs[0], func() {
					if n.Labels == nil {
						n.Labels = map[string]string{}
					}
					n.Labels[lv.k] = lv.vs[0]
					s.Store.ForceUpdate(n)
				})
			}
		}
		for _, tv := range taintVocab {
			tv := tv
			t := parseTaint(tv)
			idx := -1
			for i := range n.Spec.Taints {
				if n.Spec.Taints[i].Key == t.Key && n.Spec.Taints[i].Effect == t.Effect {
					idx = i
				}
			}
			if idx >= 0 {
				add("node.untaint "+n.Name+" "+tv, func() {
					n.Spec.Taints = append(n.Spec.Taints[:idx], n.Spec.Taints[idx+1:]...)
					s.Store.ForceUpdate(n)
				})
			} else {
				add("node.taint "+n.Name+" "+tv, func() { n.Spec.Taints = append(n.Spec.Taints, t); s.Store.ForceUpdate(n) })
			}
		}
		if s.W.Extra["overrides"] == "1" {
			for _, e := range s.W.EDS {
				for _, ct := range []string{"main", "side"} {
					ct := ct
					k := s.overrideKey(e, ct)
					if _, has := n.Annotations[k]; has {
						add("node.override- "+n.Name+" "+e.Key()+" "+ct, func() { delete(n.Annotations, k); s.Store.ForceUpdate(n) })
						continue
					}
					vals := []string{`{"requests":{"cpu":"300m"}}`, `{"limits":{"cpu":"2"},"requests":{"cpu":"400m"}}`}
					if ct == "side" {
						vals = []string{`{"requests":{"memory":"256Mi"}}`, `{"limits":{"memory":"1Gi"}}`}
					}
					if s.W.Extra["malformed"] == "1" {
						vals = append(vals, `{"requests":{"cpu":`)
					}
					for _, v := range vals {
						v := v
						add("node.override "+n.Name+" "+e.Key()+" "+ct+" "+v, func() {
							if n.Annotations == nil {
								n.Annotations = map[string]string{}
							}
							n.Annotations[k] = v
							s.Store.ForceUpdate(n)
						})
					}
				}
			}
		}
	}
	return out
}

// ---------------------------------------------------------------------------------------
// user

var userAnnotations = []string{
	edsv1.ExtendedDaemonSetRollingUpdatePausedAnnotationKey,
	edsv1.ExtendedDaemonSetRolloutFrozenAnnotationKey,
	edsv1.ExtendedDaemonSetCanaryPausedAnnotationKey,
	edsv1.ExtendedDaemonSetCanaryUnpausedAnnotationKey,
}

func shortAnn(k string) string { return k[strings.LastIndex(k, "/")+1:] }

func (s *Sim) userSetTemplate(ns, name, letter string) {
	e := s.Store.GetEDS(ns, name)
	def := s.W.EDSDef(ns, name)
	if e == nil || def == nil || def.Templates[letter] == nil {
		return
	}
	e.Spec.Template = def.Templates[letter].Spec()
	if s.W.Extra["namedEdits"] == "1" {
		e.Spec.Template.Name = "agent" // the manifest names its pod template; the defaulting clears it
	}
	s.Store.ForceUpdate(e)
}

// userReapply: the user applies the manifest again, i.e. the strategy as authored (not defaulted).
func (s *Sim) userReapply(ns, name string) {
	e := s.Store.GetEDS(ns, name)
	def := s.W.EDSDef(ns, name)
	if e == nil || def == nil {
		return
	}
	e.Spec.Strategy = def.Strategy.Object()
	s.Store.ForceUpdate(e)
}

func (s *Sim) userAnnotate(ns, name, key, val string) {
	e := s.Store.GetEDS(ns, name)
	if e == nil {
		return
	}
	if e.Annotations == nil {
		e.Annotations = map[string]string{}
	}
	if val == "-" {
		delete(e.Annotations, key)
	} else {
		e.Annotations[key] = val
	}
	s.Store.ForceUpdate(e)
}

func (s *Sim) userActions() []Action {
	var out []Action
	add := func(k string, f func()) { out = append(out, Action{A: "env", K: k, Do: f}) }
	cfg := &s.W.Cfg
	for _, def := range s.W.EDS {
		def := def
		e := s.Store.GetEDS(def.NS, def.Name)
		if e == nil {
			if cfg.EDSDelete {
				add("user.create-eds "+def.Key(), func() { _, _ = s.Store.CreateObj(def.Object()) })
			}
			continue
		}
		if cfg.TemplateEdits {
			cur := letterOfTpl(&e.Spec.Template)
			for _, l := range sortedKeys(def.Templates) {
				l := l
				if l != cur {
					add("user.template "+def.Key()+" "+l, func() { s.userSetTemplate(def.NS, def.Name, l) })
				}
			}
		}
		if cfg.MigrationEdits && def.OldDS != "" {
			// the user cancels the declared migration (the old DaemonSet and its pods stay) or declares it again
			if _, ok := e.Annotations[edsv1.ExtendedDaemonSetOldDaemonsetAnnotationKey]; ok {
				add("user.migration-cancel "+def.Key(), func() { s.userAnnotate(def.NS, def.Name, edsv1.ExtendedDaemonSetOldDaemonsetAnnotationKey, "-") })
			} else {
				add("user.migration-declare "+def.Key(), func() {
					s.userAnnotate(def.NS, def.Name, edsv1.ExtendedDaemonSetOldDaemonsetAnnotationKey, def.OldDS)
				})
			}
		}
		if cfg.AnnotationEdits {
			for _, ak := range userAnnotations {
				ak := ak
				for _, v := range []string{"true", "false", "-"} {
					v := v
					cur, has := e.Annotations[ak]
					if (v == "-" && !has) || (has && cur == v) {
						continue
					}
					add("user.annot "+def.Key()+" "+shortAnn(ak)+"="+v, func() { s.userAnnotate(def.NS, def.Name, ak, v) })
				}
			}
		}
		if cfg.StrategyEdits && def.Strategy.Canary != nil {
			// the user removes the canary strategy (also in the middle of a canary) or puts it back
			if e.Spec.Strategy.Canary != nil {
				add("user.canary-strategy "+def.Key()+" -", func() { e.Spec.Strategy.Canary = nil; s.Store.ForceUpdate(e) })
			} else {
				add("user.canary-strategy "+def.Key()+" +", func() { e.Spec.Strategy.Canary = def.Strategy.Canary.Object(); s.Store.ForceUpdate(e) })
			}
		}
		if cfg.PodTplEdits {
			k := objKey{KPodTpl, def.NS, def.Name}
			if _, err := s.Store.Get(KPodTpl, def.NS, def.Name); err == nil {
				add("user.delete-podtemplate "+def.Key(), func() { s.Store.Remove(k) })
			} else {
				// a PodTemplate of that name made by somebody else (no owner, no hash, another template)
				add("user.create-podtemplate "+def.Key(), func() {
					_, _ = s.Store.CreateObj(&corev1.PodTemplate{
						ObjectMeta: metav1.ObjectMeta{Namespace: def.NS, Name: def.Name, Labels: map[string]string{"made-by": "somebody-else"}},
						Template:   corev1.PodTemplateSpec{Spec: corev1.PodSpec{Containers: []corev1.Container{{Name: "main", Image: "foreign:1"}}}},
					})
				})
			}
		}
		if cfg.LabelEdits {
			for _, v := range []string{"1.0", "1.1"} {
				v := v
				if e.Labels["app.kubernetes.io/version"] != v {
					add("user.label-eds "+def.Key()+" version="+v, func() {
						if e.Labels == nil {
							e.Labels = map[string]string{}
						}
						e.Labels["app.kubernetes.io/version"] = v
						s.Store.ForceUpdate(e)
					})
				}
			}
		}
		if cfg.ModeEdits && e.Spec.Strategy.Canary != nil {
			// only the mode is changed; the durations written by the defaulting stay
			other := edsv1.ExtendedDaemonSetSpecStrategyCanaryValidationModeManual
			if e.Spec.Strategy.Canary.ValidationMode == other {
				other = edsv1.ExtendedDaemonSetSpecStrategyCanaryValidationModeAuto
			}
			add("user.validation-mode "+def.Key()+" "+string(other), func() { e.Spec.Strategy.Canary.ValidationMode = other; s.Store.ForceUpdate(e) })
		}
		if cfg.StrategyEdits {
			add("user.reapply-spec "+def.Key(), func() { s.userReapply(def.NS, def.Name) })
		}
		if cfg.StrategyEdits && e.Spec.Strategy.Canary != nil && e.Spec.Strategy.Canary.Replicas != nil {
			for _, v := range []string{"1", "2", "3"} {
				v := v
				if e.Spec.Strategy.Canary.Replicas.String() != v {
					add("user.canary-replicas "+def.Key()+" "+v, func() {
						e.Spec.Strategy.Canary.Replicas = intOrStr(v)
						s.Store.ForceUpdate(e)
					})
				}
			}
		}
		if cfg.EDSDelete {
			add("user.delete-eds "+def.Key(), func() { s.Store.Remove(objKey{KEDS, def.NS, def.Name}) })
		}
	}
	if cfg.ERSTouch {
		for _, r := range s.Store.ERSs() {
			r := r
			add("user.touch-ers "+r.Namespace+"/"+r.Name, func() {
				if r.Annotations == nil {
					r.Annotations = map[string]string{}
				}
				r.Annotations["touched"] = fmt.Sprint(s.step)
				s.Store.ForceUpdate(r)
			})
		}
	}
	if cfg.SettingEdits {
		have := map[string]*edsv1.ExtendedDaemonsetSetting{}
		for _, st := range s.Store.Settings() {
			have[st.Namespace+"/"+st.Name] = st
		}
		for _, sd := range s.W.Settings {
			sd := sd
			k := sd.NS + "/" + sd.Name
			if st := have[k]; st == nil {
				add("user.create-setting "+k, func() { _, _ = s.Store.CreateObj(sd.Object()); s.literalQuantities(sd) })
			} else {
				add("user.delete-setting "+k, func() { s.Store.Remove(objKey{KSetting, sd.NS, sd.Name}) })
				if len(st.Spec.Containers) > 0 {
					for _, cpu := range []string{"500m", "600m"} {
						cpu := cpu
						if q := st.Spec.Containers[0].Resources.Requests[corev1.ResourceCPU]; q.String() == cpu {
							continue
						}
						add("user.edit-setting "+k+" cpu="+cpu, func() {
							d := *sd
							d.Cpu = cpu
							n := d.Object()
							st.Spec = n.Spec
							s.Store.ForceUpdate(st)
						})
					}
				}
			}
		}
	}
	return out
}

var cliCommands = []string{"canary-pause", "canary-unpause", "canary-validate", "canary-fail", "ru-pause", "ru-unpause", "freeze", "unfreeze"}
