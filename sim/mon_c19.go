package sim

// C19 — kubectl-eds commands change only what they document and refuse when their
// precondition does not hold.

import (
	"encoding/json"
	"fmt"
	"sort"
	"strings"

	edsv1 "github.com/DataDog/extendeddaemonset/api/v1alpha1"
)

type monC19 struct{ baseMon }

func (monC19) Name() string { return "C19" }

// jsonDiff lists the paths at which two JSON documents differ.
func jsonDiff(prefix string, a, b interface{}, out *[]string) {
	am, aok := a.(jmap)
	bm, bok := b.(jmap)
	if aok && bok {
		keys := map[string]bool{}
		for k := range am {
			keys[k] = true
		}
		for k := range bm {
			keys[k] = true
		}
		var ks []string
		for k := range keys {
			ks = append(ks, k)
		}
		sort.Strings(ks)
		for _, k := range ks {
			jsonDiff(prefix+"/"+k, am[k], bm[k], out)
		}
		return
	}
	x, _ := json.Marshal(a)
	y, _ := json.Marshal(b)
	if string(x) != string(y) {
		*out = append(*out, prefix)
	}
}

var cliAnnotations = map[string][]string{
	"canary-pause":    {edsv1.ExtendedDaemonSetCanaryPausedAnnotationKey, edsv1.ExtendedDaemonSetCanaryUnpausedAnnotationKey},
	"canary-unpause":  {edsv1.ExtendedDaemonSetCanaryPausedAnnotationKey, edsv1.ExtendedDaemonSetCanaryUnpausedAnnotationKey},
	"canary-validate": {edsv1.ExtendedDaemonSetCanaryValidAnnotationKey},
	"ru-pause":        {edsv1.ExtendedDaemonSetRollingUpdatePausedAnnotationKey},
	"ru-unpause":      {edsv1.ExtendedDaemonSetRollingUpdatePausedAnnotationKey},
	"freeze":          {edsv1.ExtendedDaemonSetRolloutFrozenAnnotationKey},
	"unfreeze":        {edsv1.ExtendedDaemonSetRolloutFrozenAnnotationKey},
}

func (monC19) TaskEnd(s *Sim, t *Task) {
	if t.Ctrl != CtrlCLI {
		return
	}
	v := t.View()
	s.Stats.NonVacuous["C19.command"]++
	var writes []*Call
	for _, c := range t.Calls {
		if c.IsWrite() {
			writes = append(writes, c)
		}
	}
	applied := 0
	for _, c := range writes {
		if c.Applied() {
			applied++
		}
	}
	if t.Err != nil && applied > 0 && !t.Faulted {
		s.Violate("C19", "error-but-wrote", t.Cmd, "%s returned error %q after writing %d objects", t.Label(), t.Err, applied)
	}
	if v.EDS == nil {
		if len(writes) > 0 {
			s.Violate("C19", "blind-write", t.Cmd, "%s wrote without having read the ExtendedDaemonSet", t.Label())
		}
		return
	}
	// preconditions
	hasStrategy := v.EDS.Spec.Strategy.Canary != nil
	activeCanary := v.EDS.Status.Canary != nil
	var mustRefuse bool
	switch t.Cmd {
	case "canary-pause", "canary-unpause", "canary-fail":
		mustRefuse = !hasStrategy || !activeCanary
	case "canary-validate":
		mustRefuse = !activeCanary
	case "ru-pause", "ru-unpause", "freeze", "unfreeze":
		mustRefuse = activeCanary
	}
	if mustRefuse {
		s.Stats.NonVacuous["C19.refusal"]++
		if t.Err == nil || len(writes) > 0 {
			s.Violate("C19", "precondition", t.Cmd, "%s: precondition does not hold (canary strategy=%v, active canary=%v) but err=%v and %d writes were issued", t.Label(), hasStrategy, activeCanary, t.Err, len(writes))
		}
		return
	}
	// write set
	for _, c := range writes {
		if !c.Applied() || c.Pre == nil || c.Out == nil {
			continue
		}
		var diffs []string
		jsonDiff("", toMap(c.Pre), toMap(c.Out), &diffs)
		bad := func(f string, a ...interface{}) {
			s.Violate("C19", "write-set", t.Cmd, "%s: %s (call %s, changed %v)", t.Label(), fmt.Sprintf(f, a...), c.Desc(), diffs)
		}
		if t.Cmd == "canary-fail" {
			if c.Kind != KERS || c.Verb != "updatestatus" || c.NS != v.EDS.Namespace || c.Name != v.EDS.Status.Canary.ReplicaSet {
				bad("expected only a status update of the canary replica set %s", v.EDS.Status.Canary.ReplicaSet)
				continue
			}
			pre, post := &edsv1.ExtendedDaemonSetReplicaSet{}, &edsv1.ExtendedDaemonSetReplicaSet{}
			_ = json.Unmarshal(c.Pre, pre)
			_ = json.Unmarshal(c.Out, post)
			preNC, postNC := pre.Status.DeepCopy(), post.Status.DeepCopy()
			preNC.Conditions, postNC.Conditions = nil, nil
			x, _ := json.Marshal(preNC)
			y, _ := json.Marshal(postNC)
			if string(x) != string(y) {
				bad("status fields other than conditions changed")
			}
			for _, d := range diffs {
				if d != "/metadata/resourceVersion" && !strings.HasPrefix(d, "/status") {
					bad("changed %s", d)
				}
			}
			// what the command documents: the canary replica set is marked failed - and nothing else. Every
			// other condition stays as it was; afterwards the replica set has exactly one Canary-Failed
			// condition and it is true (set in place or added).
			other := func(cs []edsv1.ExtendedDaemonSetReplicaSetCondition) string {
				var keep []edsv1.ExtendedDaemonSetReplicaSetCondition
				for _, x := range cs {
					if x.Type != edsv1.ConditionTypeCanaryFailed {
						keep = append(keep, x)
					}
				}
				out, _ := json.Marshal(keep)
				return string(out)
			}
			if other(pre.Status.Conditions) != other(post.Status.Conditions) {
				bad("conditions other than Canary-Failed were modified")
			}
			nFailed, failedTrue := 0, false
			for _, x := range post.Status.Conditions {
				if x.Type == edsv1.ConditionTypeCanaryFailed {
					nFailed++
					failedTrue = failedTrue || x.Status == "True"
				}
			}
			if nFailed != 1 || !failedTrue {
				bad("after the command the replica set has %d Canary-Failed conditions (true among them: %v), expected exactly one, true", nFailed, failedTrue)
			}
			if first := ersCond(&post.Status, edsv1.ConditionTypeCanaryFailed); first == nil || first.Status != "True" {
				bad("the Canary-Failed condition the controllers read is not true after the command")
			}
			continue
		}
		if c.Kind != KEDS || c.NS != t.Key.Namespace || c.Name != t.Key.Name || c.Verb != "patch" {
			bad("expected only a patch of the targeted ExtendedDaemonSet")
			continue
		}
		allowed := map[string]bool{"/metadata/resourceVersion": true}
		for _, k := range cliAnnotations[t.Cmd] {
			allowed["/metadata/annotations/"+k] = true
		}
		for _, d := range diffs {
			_, hadAnnotations := meta(toMap(c.Pre))["annotations"]
			if !allowed[d] && !(d == "/metadata/annotations" && !hadAnnotations) {
				bad("changed %s", d)
			}
		}
		// (judged when nobody else wrote the object between the command's read and its patch: the
		// patch is a diff against what was read)
		if (t.Cmd == "canary-pause" || t.Cmd == "canary-unpause") && mstr(meta(toMap(c.Pre)), "resourceVersion") == v.EDS.ResourceVersion {
			// the documented values: pause = (paused true, unpaused not true); unpause = (paused false, unpaused true)
			post := &edsv1.ExtendedDaemonSet{}
			_ = json.Unmarshal(c.Out, post)
			pa, un := post.Annotations[edsv1.ExtendedDaemonSetCanaryPausedAnnotationKey], post.Annotations[edsv1.ExtendedDaemonSetCanaryUnpausedAnnotationKey]
			if t.Cmd == "canary-pause" && (pa != "true" || un == "true") {
				bad("after canary pause the annotations are canary-paused=%q canary-unpaused=%q", pa, un)
			}
			if t.Cmd == "canary-unpause" && (pa == "true" || un != "true") {
				bad("after canary unpause the annotations are canary-paused=%q canary-unpaused=%q", pa, un)
			}
		}
		if t.Cmd == "canary-validate" {
			post := &edsv1.ExtendedDaemonSet{}
			_ = json.Unmarshal(c.Out, post)
			if got := post.Annotations[edsv1.ExtendedDaemonSetCanaryValidAnnotationKey]; got != v.EDS.Status.Canary.ReplicaSet {
				bad("canary-valid set to %q, the canary replica set read was %q", got, v.EDS.Status.Canary.ReplicaSet)
			}
		}
	}
	if t.Err == nil && len(writes) == 0 {
		s.Violate("C19", "no-effect", t.Cmd, "%s reported success without writing anything", t.Label())
	}
}
