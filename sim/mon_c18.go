package sim

// C18 — at most one valid ExtendedDaemonsetSetting applies to a node.

import (
	"strings"

	corev1 "k8s.io/api/core/v1"
	metav1 "k8s.io/apimachinery/pkg/apis/meta/v1"
	"k8s.io/apimachinery/pkg/labels"

	edsv1 "github.com/DataDog/extendeddaemonset/api/v1alpha1"
)

type monC18 struct{ baseMon }

func (monC18) Name() string { return "C18" }

// judged after a pass in which every setting was reconciled fault-free with no change in between
func (monC18) Quiesced(s *Sim) {
	if s.W.Extra["c18"] != "1" {
		return
	}
	settings := s.Store.Settings()
	nodes := s.Store.Nodes()
	byNS := map[string][]*edsv1.ExtendedDaemonsetSetting{}
	for _, st := range settings {
		byNS[st.Namespace] = append(byNS[st.Namespace], st)
	}
	for _, ns := range sortedKeys(byNS) {
		group := byNS[ns]
		sel := map[string]labels.Selector{}
		unusable := ""
		for _, st := range group {
			x, err := metav1.LabelSelectorAsSelector(&st.Spec.NodeSelector)
			if err != nil {
				unusable = st.Name
				continue
			}
			sel[st.Name] = x
		}
		matches := func(st *edsv1.ExtendedDaemonsetSetting, n *corev1.Node) bool {
			x := sel[st.Name]
			return x != nil && x.Matches(labels.Set(n.Labels))
		}
		s.Stats.NonVacuous["C18.pass"]++
		for _, n := range nodes {
			var valid, matching []string
			for _, st := range group {
				if matches(st, n) {
					matching = append(matching, st.Name)
					if st.Status.Status == edsv1.ExtendedDaemonsetSettingStatusValid {
						valid = append(valid, st.Name)
					}
				}
			}
			if len(matching) >= 2 {
				s.Stats.NonVacuous["C18.overlap"]++
			}
			if len(valid) > 1 {
				s.Violate("C18", "exclusive", "", "node %s (labels %v) is matched by valid settings %v", n.Name, n.Labels, valid)
			}
		}
		for _, st := range group {
			isValid := st.Status.Status == edsv1.ExtendedDaemonsetSettingStatusValid
			hasRef := st.Spec.Reference != nil && st.Spec.Reference.Name != ""
			_, usable := sel[st.Name]
			switch {
			case !hasRef:
				if isValid || st.Status.Error == "" {
					s.Violate("C18", "verdict", "no-reference", "setting %s has no reference but status=%q error=%q", st.Name, st.Status.Status, st.Status.Error)
				}
				continue
			case !usable:
				if isValid || st.Status.Error == "" {
					s.Violate("C18", "verdict", "unusable-selector", "setting %s has an unusable selector but status=%q error=%q", st.Name, st.Status.Status, st.Status.Error)
				}
				continue
			}
			overlaps := false
			for _, n := range nodes {
				if !matches(st, n) {
					continue
				}
				for _, o := range group {
					if o.Name != st.Name && matches(o, n) {
						overlaps = true
					}
				}
			}
			if !overlaps && !isValid {
				sig := "lonely-invalid"
				if unusable != "" {
					sig = "poisoned-by-unusable-selector"
				}
				s.Violate("C18", "verdict", sig, "setting %s is well formed and overlaps no other setting on any node, but status=%q error=%q", st.Name, st.Status.Status, st.Status.Error)
			}
			if overlaps && !isValid && !strings.Contains(st.Status.Error, "conflict") {
				sig := "overlap-error-text"
				if unusable != "" {
					sig = "poisoned-by-unusable-selector"
				}
				s.Violate("C18", "verdict", sig, "setting %s overlaps another and is not valid, but its error %q does not report a conflict", st.Name, st.Status.Error)
			}
		}
	}
}

// at every pod create: the setting applied was valid in the read view and selects the node
func (monC18) PostCall(s *Sim, c *Call) {
	t := c.Task
	if t.Crashed || c.Kind != KPod || c.Verb != "create" || t.Ctrl != CtrlERS {
		return
	}
	p := reqPod(c)
	name := p.Labels[edsv1.ExtendedDaemonSetSettingNameLabelKey]
	if name == "" {
		return
	}
	v := t.View()
	node := v.Nodes[c.Node]
	if node == nil {
		return
	}
	s.Stats.NonVacuous["C18.applied"]++
	for _, st := range v.Settings {
		if st.Name != name || st.Namespace != p.Labels[edsv1.ExtendedDaemonSetSettingNamespaceLabelKey] {
			continue
		}
		x, err := metav1.LabelSelectorAsSelector(&st.Spec.NodeSelector)
		if st.Status.Status != edsv1.ExtendedDaemonsetSettingStatusValid {
			s.Violate("C18", "applied", "invalid", "%s applied setting %s whose status is %q to the pod of node %s", t.Label(), name, st.Status.Status, c.Node)
		}
		if err != nil || !x.Matches(labels.Set(node.Labels)) {
			s.Violate("C18", "applied", "not-selecting", "%s applied setting %s which does not select node %s", t.Label(), name, c.Node)
		}
		return
	}
	s.Violate("C18", "applied", "unknown", "%s applied setting %s which it did not list", t.Label(), name)
}

// A setting whose conflict check could not be made (the node list failed) must not come out valid.
func (monC18) TaskEnd(s *Sim, t *Task) {
	if t.Ctrl == CtrlERS && t.Clean() && t.Err != nil {
		// "only valid settings influence pods": a setting that is in error (its selector cannot be used)
		// must not make the replica-set sync fail either
		msg := t.Err.Error()
		if strings.Contains(msg, "label selector operator") || strings.Contains(msg, "values set can't be empty") || strings.Contains(msg, "operators, values set") {
			s.Violate("C18", "applied", "error-setting-breaks-sync", "%s failed on the selector of a setting that is not valid: %v", t.Label(), t.Err)
		}
	}
	if t.Ctrl != CtrlSetting || t.Crashed {
		return
	}
	if c := statusWriteSwallowed(t, KSetting); c != nil {
		s.Violate("C18", "verdict-not-stored", "", "%s: the write of its verdict failed (%v) but the reconcile reported success and no requeue: the setting counts as reconciled with a stale status", t.Label(), c.Err)
	}
	nodeListFailed, settingListFailed := false, false
	var write, read *Call
	for _, c := range t.Calls {
		if c.Verb == "list" && c.Kind == KNode && c.Err != nil {
			nodeListFailed = true
		}
		if c.Verb == "list" && c.Kind == KSetting && c.Err != nil {
			settingListFailed = true
		}
		if c.Verb == "get" && c.Kind == KSetting && c.Err == nil && read == nil {
			read = c
		}
		if c.Verb == "updatestatus" && c.Kind == KSetting {
			write = c
		}
	}
	if settingListFailed && read != nil && write != nil && write.Applied() && write.Out != nil {
		// the other settings could not be listed: no conflict check was made, so a setting that was not
		// valid before must not come out valid
		var pre, post edsv1.ExtendedDaemonsetSetting
		decodeInto(read.Out, &pre)
		decodeInto(write.Out, &post)
		s.Stats.NonVacuous["C18.setting-list-failed"]++
		if pre.Status.Status != edsv1.ExtendedDaemonsetSettingStatusValid && post.Status.Status == edsv1.ExtendedDaemonsetSettingStatusValid {
			s.Violate("C18", "unchecked-valid", "settings-list", "%s could not list the settings of the namespace but turned the setting from %q to valid", t.Label(), pre.Status.Status)
		}
	}
	if !nodeListFailed {
		return
	}
	s.Stats.NonVacuous["C18.node-list-failed"]++
	if write != nil && !write.Applied() {
		return // the verdict could not be written either
	}
	var st edsv1.ExtendedDaemonsetSetting
	if write != nil && write.Out != nil {
		decodeInto(write.Out, &st)
	} else if b, err := s.Store.Get(KSetting, t.Key.Namespace, t.Key.Name); err == nil {
		decodeInto(b, &st)
	} else {
		return
	}
	if st.Status.Status == edsv1.ExtendedDaemonsetSettingStatusValid {
		s.Violate("C18", "unchecked-valid", "", "%s could not list the nodes but left the setting valid (error %q)", t.Label(), st.Status.Error)
	}
}
