package sim

// C14 — status tells the truth (per-reconcile part). Also the state strings of C08.

import (
	"strings"
	"encoding/json"

	corev1 "k8s.io/api/core/v1"

	edsv1 "github.com/DataDog/extendeddaemonset/api/v1alpha1"
)

type monC14 struct{ baseMon }

func (monC14) Name() string { return "C14" }

func annTrue(a map[string]string, k string) bool { return a[k] == "true" }

// finalEDSStatus: the status after a reconcile (written one, else the one read).
func finalEDSStatus(v *SyncView) (*edsv1.ExtendedDaemonSetStatus, bool) {
	for i := len(v.StatusWrites) - 1; i >= 0; i-- {
		c := v.StatusWrites[i]
		if c.Kind == KEDS && c.Applied() && c.Out != nil {
			o := &edsv1.ExtendedDaemonSet{}
			_ = json.Unmarshal(c.Out, o)
			return &o.Status, true
		}
	}
	if v.EDS == nil {
		return nil, false
	}
	return &v.EDS.Status, false
}

func ownERS(v *SyncView) map[string]*edsv1.ExtendedDaemonSetReplicaSet {
	own := map[string]*edsv1.ExtendedDaemonSetReplicaSet{}
	for _, r := range v.ERSList {
		if r.Namespace == v.EDS.Namespace && ownerUID(&r.ObjectMeta, "ExtendedDaemonSet") == string(v.EDS.UID) {
			own[r.Name] = r
		}
	}
	return own
}

// reachedStatusStage: the reconcile went through the status computation.
func reachedStatusStage(v *SyncView) bool {
	if v.EDS == nil || !v.ERSRead || len(v.ERSCreates) > 0 {
		return false
	}
	return true
}

// statusWriteSwallowed: the last write of the reconciled object's own status failed and the
// reconcile reported neither an error nor a requeue - the request is dropped from the work queue
// with the stored status stale.
func statusWriteSwallowed(t *Task, kind string) *Call {
	if t.Crashed || t.Panic != nil || t.Err != nil || t.Result.Requeue || t.Result.RequeueAfter > 0 {
		return nil
	}
	var last *Call
	for _, c := range t.Calls {
		if c.Kind == kind && (c.Verb == "updatestatus" || c.Verb == "patchstatus") && c.NS == t.Key.Namespace && c.Name == t.Key.Name {
			last = c
		}
	}
	if last == nil || last.Applied() || last.Err == nil {
		return nil
	}
	return last
}

func (monC14) TaskEnd(s *Sim, t *Task) {
	if t.Ctrl == CtrlERS {
		if c := statusWriteSwallowed(t, KERS); c != nil {
			s.Violate("C14", "status-write-lost", "ers", "%s: its status write failed (%v) but the reconcile reported success and no requeue: the stored status stays stale with nothing scheduled to refresh it", t.Label(), c.Err)
		}
	}
	if t.Ctrl == CtrlEDS {
		if c := statusWriteSwallowed(t, KEDS); c != nil {
			s.Violate("C14", "status-write-lost", "eds", "%s: its status write failed (%v) but the reconcile reported success and no requeue", t.Label(), c.Err)
		}
	}
	if t.Ctrl == CtrlEDS && t.Successful() {
		// "after each reconcile the status equals the documented function of its replica sets' statuses":
		// a reconcile of an existing, defaulted object that reports success without having looked at the
		// replica sets has not maintained anything
		if v := t.View(); v.EDS != nil && edsv1.IsDefaultedExtendedDaemonSet(v.EDS) && !v.ERSRead {
			writes := 0
			for _, c := range t.Calls {
				if c.IsWrite() {
					writes++
				}
			}
			if writes == 0 {
				s.Violate("C14", "status-not-maintained", "", "%s reported success without reading the replica sets (deletionTimestamp set: %v): the status keeps whatever it said before", t.Label(), v.EDS.DeletionTimestamp != nil)
			}
		}
	}
	switch t.Ctrl {
	case CtrlERS:
		if !t.Clean() {
			return
		}
		v := t.View()
		if !v.Full() {
			return
		}
		role := v.Role()
		if role != "active" && role != "canary" {
			return
		}
		for _, c := range v.StatusWrites {
			if c.Kind != KERS || c.Err != nil {
				continue
			}
			o := &edsv1.ExtendedDaemonSetReplicaSet{}
			_ = json.Unmarshal(c.Out, o)
			st := o.Status
			s.Stats.NonVacuous["C14.ers"]++
			if !(0 <= st.Available && st.Available <= st.Ready && st.Ready <= st.Current && st.Current <= st.Desired) {
				s.Violate("C14", "ers-order", role, "%s (%s) wrote status desired=%d current=%d ready=%d available=%d", t.Label(), role, st.Desired, st.Current, st.Ready, st.Available)
			}
			// desired: the nodes this role serves, as the sync read them
			if role == "active" && v.EDS != nil && len(v.CanaryNodes()) == 0 || role == "active" && v.EDS != nil && v.EDS.Status.Canary != nil {
				if f := facts(v); int(st.Desired) != len(f.targeted) && !ersCondTrue(&st, edsv1.ConditionTypeReconcileError) {
					s.Violate("C14", "ers-desired", role, "%s (%s) wrote desired=%d, the node list it read has %d nodes it serves", t.Label(), role, st.Desired, len(f.targeted))
				}
			}
		}
	case CtrlEDS:
		if !t.Successful() {
			return
		}
		v := t.View()
		if !reachedStatusStage(v) {
			return
		}
		st, _ := finalEDSStatus(v)
		own := ownERS(v)
		if len(own) != len(v.ERSList) {
			return // foreign replica sets listed: C12's subject
		}
		s.Stats.NonVacuous["C14.eds"]++
		var cur, ready, avail int32
		for _, r := range own {
			cur += r.Status.Current
			ready += r.Status.Ready
			avail += r.Status.Available
		}
		if st.Current != cur || st.Ready != ready || st.Available != avail {
			s.Violate("C14", "sums", "", "%s: status current/ready/available=%d/%d/%d, replica sets sum to %d/%d/%d", t.Label(), st.Current, st.Ready, st.Available, cur, ready, avail)
		}
		act := own[st.ActiveReplicaSet]
		if act == nil {
			return
		}
		ann := v.EDS.Annotations
		specLetter := letterOfTpl(&v.EDS.Spec.Template)
		var upToDate *edsv1.ExtendedDaemonSetReplicaSet
		for _, r := range v.ERSList { // list order: deterministic
			if own[r.Name] != nil && letterOfTpl(&r.Spec.Template) == specLetter {
				upToDate = r
			}
		}
		if st.Canary == nil {
			if st.Desired != act.Status.Desired || st.UpToDate != act.Status.Current {
				s.Violate("C14", "desired", "nocanary", "%s: no canary, desired=%d upToDate=%d but active replica set has desired=%d current=%d", t.Label(), st.Desired, st.UpToDate, act.Status.Desired, act.Status.Current)
			}
		} else {
			cr := own[st.Canary.ReplicaSet]
			if cr == nil {
				s.Violate("C14", "canary-ref", "", "%s: status.canary names %q which is not one of its replica sets", t.Label(), st.Canary.ReplicaSet)
				return
			}
			if st.Desired != act.Status.Desired+cr.Status.Desired || st.UpToDate != cr.Status.Current {
				s.Violate("C14", "desired", "canary", "%s: canary in progress, desired=%d upToDate=%d but active desired=%d, canary desired=%d current=%d", t.Label(), st.Desired, st.UpToDate, act.Status.Desired, cr.Status.Desired, cr.Status.Current)
			}
		}
		// state / reason / conditions
		frozen := annTrue(ann, edsv1.ExtendedDaemonSetRolloutFrozenAnnotationKey)
		ruPaused := annTrue(ann, edsv1.ExtendedDaemonSetRollingUpdatePausedAnnotationKey)
		plain := edsv1.ExtendedDaemonSetStatusStateRunning
		if frozen {
			plain = edsv1.ExtendedDaemonSetStatusStateRolloutFrozen
		} else if ruPaused {
			plain = edsv1.ExtendedDaemonSetStatusStateRollingUpdatePaused
		}
		want := plain
		wantFailedCond, wantPausedCond := false, false
		if v.EDS.Spec.Strategy.Canary != nil && upToDate != nil {
			failed := ersCondTrue(&upToDate.Status, edsv1.ConditionTypeCanaryFailed)
			paused := ersCondTrue(&upToDate.Status, edsv1.ConditionTypeCanaryPaused) || annTrue(ann, edsv1.ExtendedDaemonSetCanaryPausedAnnotationKey)
			inProgress := upToDate.Name != act.Name
			switch {
			case failed:
				want = edsv1.ExtendedDaemonSetStatusStateCanaryFailed
				wantFailedCond = true
				if st.Canary != nil {
					s.Violate("C14", "state", "failed-canary-block", "%s: canary failed but status.canary is still set", t.Label())
				}
			case inProgress && paused:
				want = edsv1.ExtendedDaemonSetStatusStateCanaryPaused
				wantPausedCond = true
			case inProgress:
				want = edsv1.ExtendedDaemonSetStatusStateCanary
			}
			if c := edsCond(st, edsv1.ConditionTypeEDSCanaryFailed); (c != nil && c.Status == corev1.ConditionTrue) != wantFailedCond {
				s.Violate("C14", "cond", "failed", "%s: Canary-Failed condition %v, canary facts say %v", t.Label(), !wantFailedCond, wantFailedCond)
			}
			// with no canary in progress a left-over pause annotation may or may not show
			if c := edsCond(st, edsv1.ConditionTypeEDSCanaryPaused); (failed || inProgress) && (c != nil && c.Status == corev1.ConditionTrue) != wantPausedCond {
				s.Violate("C14", "cond", "paused", "%s: Canary-Paused condition %v, canary facts say %v", t.Label(), !wantPausedCond, wantPausedCond)
			}
		}
		// reason: only a paused canary in progress has one
		if want != edsv1.ExtendedDaemonSetStatusStateCanaryPaused && st.Reason != "" {
			s.Violate("C14", "reason", "stale", "%s: state %q but reason %q is still reported", t.Label(), st.State, st.Reason)
		}
		if want == edsv1.ExtendedDaemonSetStatusStateCanaryPaused && upToDate != nil {
			wantReason := ""
			if pc := ersCond(&upToDate.Status, edsv1.ConditionTypeCanaryPaused); pc != nil && pc.Status == corev1.ConditionTrue {
				wantReason = pc.Reason
			} else if r, ok := ann[edsv1.ExtendedDaemonSetCanaryPausedReasonAnnotationKey]; ok {
				wantReason = r
			} else {
				wantReason = string(edsv1.ExtendedDaemonSetStatusReasonUnknown)
			}
			if string(st.Reason) != wantReason {
				s.Violate("C14", "reason", "paused", "%s: canary paused, reason %q reported, the pause source says %q", t.Label(), st.Reason, wantReason)
			}
			// the Canary-Paused condition tells the same story as state and reason
			if c := edsCond(st, edsv1.ConditionTypeEDSCanaryPaused); c != nil && c.Status == corev1.ConditionTrue {
				if c.Reason != wantReason {
					s.Violate("C14", "cond", "paused-reason", "%s: Canary-Paused condition gives reason %q, the pause source says %q (status.reason %q)", t.Label(), c.Reason, wantReason, st.Reason)
				}
				if !strings.Contains(c.Message, upToDate.Name) {
					s.Violate("C14", "cond", "paused-replicaset", "%s: Canary-Paused condition message %q does not name the canary replica set %s", t.Label(), c.Message, upToDate.Name)
				}
			}
		}
		if st.State != want {
			prop := "C14"
			s.Violate(prop, "state", string(want), "%s: state %q, expected %q (frozen=%v paused=%v)", t.Label(), st.State, want, frozen, ruPaused)
			if want == edsv1.ExtendedDaemonSetStatusStateRolloutFrozen || want == edsv1.ExtendedDaemonSetStatusStateRollingUpdatePaused || want == edsv1.ExtendedDaemonSetStatusStateCanaryPaused ||
				st.State == edsv1.ExtendedDaemonSetStatusStateRolloutFrozen || st.State == edsv1.ExtendedDaemonSetStatusStateRollingUpdatePaused || st.State == edsv1.ExtendedDaemonSetStatusStateCanaryPaused {
				s.Violate("C08", "state", string(want), "%s: state %q, expected %q", t.Label(), st.State, want)
			}
		}
	}
}
