package sim

func allMonitors() []Monitor {
	return []Monitor{monC01{}, &monC02{}, monC12{}, &monC13{}, monC14{}, &monRoll{}, &monC05{}, &monC06{}, monC10{}, monC18{}, monC19{}, &monC16{}, monC17{}}
}
