package sim

// State injection: pods built with the repository's own pod constructor, then given the
// status a kubelet would have produced, and stored with a chosen age.

import (
	"strings"
	"fmt"
	"time"

	appsv1 "k8s.io/api/apps/v1"
	corev1 "k8s.io/api/core/v1"
	metav1 "k8s.io/apimachinery/pkg/apis/meta/v1"
	"k8s.io/apimachinery/pkg/types"

	edsv1 "github.com/DataDog/extendeddaemonset/api/v1alpha1"
	podutils "github.com/DataDog/extendeddaemonset/pkg/controller/utils/pod"
)

// PodState describes an injected pod.
type PodState struct {
	Kind      string `json:"kind"` // none, ready, unready, pending, failed, unknown, cannotstart, creating
	Term      bool   `json:"term,omitempty"`      // Terminating (within grace)
	StuckTerm bool   `json:"stuckTerm,omitempty"` // Terminating past its grace period
	Unsched   bool   `json:"unsched,omitempty"`   // not bound (affinity mode only)
	AgeSec    int    `json:"ageSec,omitempty"`
	Restarts  int32  `json:"restarts,omitempty"`
	NoLastTerm bool  `json:"noLastTerm,omitempty"` // restart count without lastState.terminated
	RestartAgoSec int `json:"restartAgoSec,omitempty"`
	Waiting   string `json:"waiting,omitempty"`
	FirstWaiting string `json:"firstWaiting,omitempty"` // waiting reason of the first container when it differs from the others'
	InitWaiting  string `json:"initWaiting,omitempty"`  // an init container waiting with this reason (the others wait with PodInitializing)
	InitRestarts      int32 `json:"initRestarts,omitempty"` // restarts of an init container (status only)
	InitRestartAgoSec int   `json:"initRestartAgoSec,omitempty"`
	SideRestarts      int32 `json:"sideRestarts,omitempty"`
	SideRestartAgoSec int   `json:"sideRestartAgoSec,omitempty"`
	StartAgoSec int  `json:"startAgoSec,omitempty"`
	Ephemeral bool   `json:"ephemeral,omitempty"` // carries the status of an ephemeral (debug) container
	Suffix    string `json:"suffix,omitempty"`
}

func (s *Sim) injectPod(ers *edsv1.ExtendedDaemonSetReplicaSet, node *corev1.Node, ps PodState) *corev1.Pod {
	affinity := s.W.AffinityMode
	p, err := podutils.CreatePodFromDaemonSetReplicaSet(theScheme, ers, node, nil, affinity)
	if err != nil {
		panic(err)
	}
	s.injSeq++
	p.Name = fmt.Sprintf("%s%s-i%d%s", p.GenerateName, node.Name, s.injSeq, ps.Suffix)
	p.GenerateName = ""
	s.finishInjected(p, node.Name, ps)
	return p
}

func (s *Sim) finishInjected(p *corev1.Pod, nodeName string, ps PodState) {
	now := s.Now()
	age := time.Duration(ps.AgeSec) * time.Second
	if age == 0 {
		age = 5 * time.Minute
	}
	created := metav1.NewTime(now.Add(-age))
	p.CreationTimestamp = created
	if !(ps.Unsched && s.W.AffinityMode) {
		p.Spec.NodeName = nodeName
	}
	startAgo := time.Duration(ps.StartAgoSec) * time.Second
	if startAgo == 0 {
		startAgo = age - time.Second
	}
	st := metav1.NewTime(now.Add(-startAgo))
	mkCS := func(state corev1.ContainerState, ready bool) []corev1.ContainerStatus {
		var out []corev1.ContainerStatus
		for i, c := range p.Spec.Containers {
			cs := corev1.ContainerStatus{Name: c.Name, Image: c.Image, Ready: ready, State: state}
			if i == 1 && ps.SideRestarts > 0 {
				cs.RestartCount = ps.SideRestarts
				ago := time.Duration(ps.SideRestartAgoSec) * time.Second
				if ago == 0 {
					ago = 30 * time.Second
				}
				cs.LastTerminationState = corev1.ContainerState{Terminated: &corev1.ContainerStateTerminated{Reason: "Error", ExitCode: 1, FinishedAt: metav1.NewTime(now.Add(-ago))}}
			}
			if i == 0 && ps.Restarts > 0 {
				cs.RestartCount = ps.Restarts
				ago := time.Duration(ps.RestartAgoSec) * time.Second
				if ago == 0 {
					ago = time.Minute
				}
				cs.LastTerminationState = corev1.ContainerState{Terminated: &corev1.ContainerStateTerminated{Reason: "Error", ExitCode: 1, FinishedAt: metav1.NewTime(now.Add(-ago))}}
				if ps.NoLastTerm {
					cs.LastTerminationState = corev1.ContainerState{}
				}
			}
			out = append(out, cs)
		}
		return out
	}
	p.Status = corev1.PodStatus{Phase: corev1.PodPending}
	if p.Spec.NodeName != "" {
		p.Status.Conditions = append(p.Status.Conditions, corev1.PodCondition{Type: corev1.PodScheduled, Status: corev1.ConditionTrue, LastTransitionTime: created})
	}
	switch ps.Kind {
	case "ready":
		p.Status.Phase = corev1.PodRunning
		p.Status.StartTime = &st
		p.Status.ContainerStatuses = mkCS(corev1.ContainerState{Running: &corev1.ContainerStateRunning{StartedAt: st}}, true)
		p.Status.Conditions = append(p.Status.Conditions, corev1.PodCondition{Type: corev1.PodReady, Status: corev1.ConditionTrue, LastTransitionTime: st})
	case "unready":
		p.Status.Phase = corev1.PodRunning
		p.Status.StartTime = &st
		p.Status.ContainerStatuses = mkCS(corev1.ContainerState{Running: &corev1.ContainerStateRunning{StartedAt: st}}, false)
		p.Status.Conditions = append(p.Status.Conditions, corev1.PodCondition{Type: corev1.PodReady, Status: corev1.ConditionFalse, LastTransitionTime: st})
	case "creating":
		p.Status.StartTime = &st
		p.Status.ContainerStatuses = mkCS(corev1.ContainerState{Waiting: &corev1.ContainerStateWaiting{Reason: "ContainerCreating"}}, false)
		p.Status.Conditions = append(p.Status.Conditions, corev1.PodCondition{Type: corev1.PodReady, Status: corev1.ConditionFalse, LastTransitionTime: st})
	case "cannotstart":
		p.Status.StartTime = &st
		w := ps.Waiting
		if w == "" {
			w = "ImagePullBackOff"
		}
		if ps.InitWaiting != "" {
			w = "PodInitializing"
		}
		p.Status.ContainerStatuses = mkCS(corev1.ContainerState{Waiting: &corev1.ContainerStateWaiting{Reason: w}}, false)
		if ps.FirstWaiting != "" && len(p.Status.ContainerStatuses) > 1 {
			p.Status.ContainerStatuses[0].State = corev1.ContainerState{Waiting: &corev1.ContainerStateWaiting{Reason: ps.FirstWaiting}}
		}
		if ps.InitWaiting != "" {
			p.Status.InitContainerStatuses = []corev1.ContainerStatus{{Name: "init", Image: "init:1", State: corev1.ContainerState{Waiting: &corev1.ContainerStateWaiting{Reason: ps.InitWaiting}}}}
		}
		p.Status.Conditions = append(p.Status.Conditions, corev1.PodCondition{Type: corev1.PodReady, Status: corev1.ConditionFalse, LastTransitionTime: st})
	case "pending":
	case "failed":
		p.Status.Phase = corev1.PodFailed
		p.Status.Reason = "Evicted"
	case "unknown":
		p.Status.Phase = corev1.PodUnknown
	case "succeeded":
		// all containers exited 0 (graceful node shutdown, restartPolicy OnFailure): the pod still exists
		// and still occupies its node
		p.Status.Phase = corev1.PodSucceeded
		p.Status.StartTime = &st
		p.Status.ContainerStatuses = mkCS(corev1.ContainerState{Terminated: &corev1.ContainerStateTerminated{Reason: "Completed", ExitCode: 0, FinishedAt: st}}, false)
		p.Status.Conditions = append(p.Status.Conditions, corev1.PodCondition{Type: corev1.PodReady, Status: corev1.ConditionFalse, Reason: "PodCompleted", LastTransitionTime: st})
	default:
		panic("pod state " + ps.Kind)
	}
	if ps.Ephemeral && len(p.Status.ContainerStatuses) > 0 {
		// somebody attached a debug container: a healthy, never restarted ephemeral container
		p.Status.EphemeralContainerStatuses = []corev1.ContainerStatus{{Name: "debugger", Image: "busybox:1", Ready: false, State: corev1.ContainerState{Running: &corev1.ContainerStateRunning{StartedAt: metav1.NewTime(now.Add(-10 * time.Second))}}}}
	}
	if ps.InitRestarts > 0 && ps.InitWaiting == "" {
		ago := time.Duration(ps.InitRestartAgoSec) * time.Second
		if ago == 0 {
			ago = 45 * time.Second
		}
		p.Status.InitContainerStatuses = []corev1.ContainerStatus{{Name: "init", Image: "init:1", Ready: true, RestartCount: ps.InitRestarts,
			State:                corev1.ContainerState{Terminated: &corev1.ContainerStateTerminated{Reason: "Completed", ExitCode: 0, FinishedAt: metav1.NewTime(now.Add(-ago + time.Second))}},
			LastTerminationState: corev1.ContainerState{Terminated: &corev1.ContainerStateTerminated{Reason: "Error", ExitCode: 1, FinishedAt: metav1.NewTime(now.Add(-ago))}}}}
	}
	if ps.Term || ps.StuckTerm {
		g := int64(30)
		p.DeletionGracePeriodSeconds = &g
		dt := metav1.NewTime(now.Add(20 * time.Second))
		if ps.StuckTerm {
			dt = metav1.NewTime(now.Add(-2 * time.Minute))
		}
		p.DeletionTimestamp = &dt
	}
	s.Store.Inject(p)
}

// injectLegacyPod: a pod owned by the old DaemonSet named by the migration annotation.
func (s *Sim) injectLegacyPod(def *EDSDef, node *corev1.Node, ps PodState) {
	s.injSeq++
	p := &corev1.Pod{
		ObjectMeta: metav1.ObjectMeta{
			Namespace: def.NS, Name: fmt.Sprintf("%s-%s-i%d", def.OldDS, node.Name, s.injSeq),
			Labels: s.legacyLabels(),
			OwnerReferences: []metav1.OwnerReference{{APIVersion: "apps/v1", Kind: "DaemonSet", Name: def.OldDS, UID: types.UID("uid-legacy-" + def.OldDS), Controller: bptr(true)}},
		},
		Spec: corev1.PodSpec{Containers: []corev1.Container{{Name: "main", Image: "legacy:1"}}},
	}
	ps.Unsched = false // a DaemonSet pod without node name or node affinity does not exist
	s.finishInjected(p, node.Name, ps)
}

// legacyLabels: the labels (and selector) of the old DaemonSet; in a realistic migration they are the
// ones of the ExtendedDaemonSet's own pod template, so that its selector also matches the new pods.
func (s *Sim) legacyLabels() map[string]string {
	if s.W.Extra["legacySameLabels"] == "1" {
		return map[string]string{"app": "daemon"}
	}
	return map[string]string{"app": "legacy"}
}

func (s *Sim) ensureLegacyDS(def *EDSDef) {
	ds := &appsv1.DaemonSet{
		ObjectMeta: metav1.ObjectMeta{Namespace: def.NS, Name: def.OldDS, UID: types.UID("uid-legacy-" + def.OldDS)},
		Spec: appsv1.DaemonSetSpec{
			Selector: &metav1.LabelSelector{MatchLabels: s.legacyLabels()},
			Template: corev1.PodTemplateSpec{ObjectMeta: metav1.ObjectMeta{Labels: s.legacyLabels()}, Spec: corev1.PodSpec{Containers: []corev1.Container{{Name: "main", Image: "legacy:1"}}}},
		},
	}
	s.Store.Inject(ds)
}

// bootstrap brings an EDS to "template <letter> active" using fault-free sequential reconciles.
func (s *Sim) bootstrap(def *EDSDef) {
	key := types.NamespacedName{Namespace: def.NS, Name: def.Name}
	for i := 0; i < 4; i++ {
		s.RunTask(CtrlEDS, key)
	}
}

func (s *Sim) ersByLetter(def *EDSDef, letter string) *edsv1.ExtendedDaemonSetReplicaSet {
	e := s.Store.GetEDS(def.NS, def.Name)
	for _, r := range s.Store.ERSs() {
		if e != nil && r.Namespace == def.NS && ownerUID(&r.ObjectMeta, "ExtendedDaemonSet") == string(e.UID) && letterOfTpl(&r.Spec.Template) == letter {
			return r
		}
	}
	return nil
}

// injectForeignPod: a pod that does not belong to any ExtendedDaemonSet of the run.
func (s *Sim) injectForeignPod(ns, name, node string, lbls map[string]string, ownerDS string) {
	p := &corev1.Pod{
		ObjectMeta: metav1.ObjectMeta{Namespace: ns, Name: name, Labels: lbls},
		Spec:       corev1.PodSpec{Containers: []corev1.Container{{Name: "main", Image: "foreign:1"}}},
	}
	if strings.HasPrefix(ownerDS, "StatefulSet/") {
		name := strings.TrimPrefix(ownerDS, "StatefulSet/")
		p.OwnerReferences = []metav1.OwnerReference{{APIVersion: "apps/v1", Kind: "StatefulSet", Name: name, UID: types.UID("uid-sts-" + name), Controller: bptr(true)}}
		ownerDS = ""
	}
	if ownerDS != "" {
		p.OwnerReferences = []metav1.OwnerReference{{APIVersion: "apps/v1", Kind: "DaemonSet", Name: ownerDS, UID: types.UID("uid-" + ownerDS), Controller: bptr(true)}}
		if s.Store.GetPod(ns, "none") == nil {
			ds := &appsv1.DaemonSet{ObjectMeta: metav1.ObjectMeta{Namespace: ns, Name: ownerDS, UID: types.UID("uid-" + ownerDS)}, Spec: appsv1.DaemonSetSpec{Selector: &metav1.LabelSelector{MatchLabels: lbls}}}
			if _, err := s.Store.Get(KDS, ns, ownerDS); err != nil {
				s.Store.Inject(ds)
			}
		}
	}
	s.finishInjected(p, node, PodState{Kind: "ready"})
}
