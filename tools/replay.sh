#!/bin/bash
# dev helper: replay.sh FILE [grep-pattern]
cd /tmp && VERIF_LOG=1 VERIF_MODE=replay VERIF_REPLAY=$1 /verif/bin/sim.test -test.run TestWorker -test.cpu 1 2>&1 | grep -E "${2:-.}"
