package sim

// C10 — created pods are pinned, labelled and stable under the controller's comparison.

import (
	"encoding/json"
	"fmt"

	corev1 "k8s.io/api/core/v1"
	apiequality "k8s.io/apimachinery/pkg/api/equality"
	metav1 "k8s.io/apimachinery/pkg/apis/meta/v1"
	"k8s.io/apimachinery/pkg/labels"

	edsv1 "github.com/DataDog/extendeddaemonset/api/v1alpha1"
)

type monC10 struct{ baseMon }

func (monC10) Name() string { return "C10" }

// expectedResources: node-annotation override, else the valid setting selecting the node,
// else the template. ok=false when the inputs are ambiguous (several valid settings match).
func expectedResources(edsNS, edsName string, node *corev1.Node, settings []*edsv1.ExtendedDaemonsetSetting, tpl *corev1.PodTemplateSpec, container string) (corev1.ResourceRequirements, string, bool) {
	var base corev1.ResourceRequirements
	for _, c := range tpl.Spec.Containers {
		if c.Name == container {
			base = c.Resources
		}
	}
	src := "template"
	var matching []*edsv1.ExtendedDaemonsetSetting
	for _, st := range settings {
		if st.Namespace != edsNS || st.Spec.Reference == nil || st.Spec.Reference.Name != edsName || st.Status.Status != edsv1.ExtendedDaemonsetSettingStatusValid {
			continue
		}
		sel, err := metav1.LabelSelectorAsSelector(&st.Spec.NodeSelector)
		if err != nil || !sel.Matches(labels.Set(node.Labels)) {
			continue
		}
		matching = append(matching, st)
	}
	if len(matching) > 1 {
		return base, "", false
	}
	if len(matching) == 1 {
		for _, c := range matching[0].Spec.Containers {
			if c.Name == container {
				base = c.Resources
				src = "setting"
			}
		}
	}
	key := fmt.Sprintf(edsv1.ExtendedDaemonSetRessourceNodeAnnotationKey, edsNS, edsName, container)
	if val, ok := node.Annotations[key]; ok {
		var rr corev1.ResourceRequirements
		if err := json.Unmarshal([]byte(val), &rr); err == nil {
			if src == "setting" {
				src = "override+setting"
			} else {
				src = "override"
			}
			base = rr
		}
	}
	return base, src, true
}

func (monC10) PostCall(s *Sim, c *Call) {
	t := c.Task
	if t.Crashed || c.Kind != KPod || c.Verb != "create" || t.Ctrl != CtrlERS {
		return
	}
	v := t.View()
	if v.ERS == nil || v.EDS == nil {
		return
	}
	p := reqPod(c)
	s.Stats.NonVacuous["C10.create"]++
	bad := func(sig, f string, a ...interface{}) {
		s.Violate("C10", "shape", sig, "%s created pod for %q: %s", t.Label(), c.Node, fmt.Sprintf(f, a...))
	}
	// pinned to exactly one node
	pinned := ""
	if p.Spec.NodeName != "" {
		pinned = p.Spec.NodeName
		if s.W.AffinityMode {
			bad("pin-mode", "node name set although node affinity assignment is configured")
		}
	} else {
		a := p.Spec.Affinity
		if a == nil || a.NodeAffinity == nil || a.NodeAffinity.RequiredDuringSchedulingIgnoredDuringExecution == nil || len(a.NodeAffinity.RequiredDuringSchedulingIgnoredDuringExecution.NodeSelectorTerms) == 0 {
			bad("unpinned", "neither node name nor required node affinity")
		} else {
			for _, term := range a.NodeAffinity.RequiredDuringSchedulingIgnoredDuringExecution.NodeSelectorTerms {
				n := 0
				for _, f := range term.MatchFields {
					if f.Key == "metadata.name" && f.Operator == corev1.NodeSelectorOpIn && len(f.Values) == 1 {
						n++
						if pinned != "" && pinned != f.Values[0] {
							bad("pin-terms", "affinity terms pin different nodes %s and %s", pinned, f.Values[0])
						}
						pinned = f.Values[0]
					}
				}
				if n != 1 {
					bad("pin-terms", "an affinity term is not pinned to exactly one node name (%d name fields)", n)
				}
			}
		}
	}
	node := v.Nodes[pinned]
	if node == nil {
		bad("pin-unknown", "pinned to %q which is not a node it read", pinned)
		return
	}
	// ownership, labels, hash, tolerations
	okOwner := false
	for _, r := range p.OwnerReferences {
		if r.Controller != nil && *r.Controller && r.UID == v.ERS.UID && r.Kind == KERS && r.Name == v.ERS.Name {
			okOwner = true
		}
	}
	if !okOwner {
		bad("owner", "no controller owner reference to its replica set %s/%s", v.ERS.Name, v.ERS.UID)
	}
	if p.Namespace != v.ERS.Namespace {
		bad("namespace", "namespace %s, replica set lives in %s", p.Namespace, v.ERS.Namespace)
	}
	if p.Labels[edsv1.ExtendedDaemonSetNameLabelKey] != v.EDS.Name || p.Labels[edsv1.ExtendedDaemonSetReplicaSetNameLabelKey] != v.ERS.Name {
		bad("labels", "labels eds=%q ers=%q, expected %q/%q", p.Labels[edsv1.ExtendedDaemonSetNameLabelKey], p.Labels[edsv1.ExtendedDaemonSetReplicaSetNameLabelKey], v.EDS.Name, v.ERS.Name)
	}
	if p.Annotations[hashKey] == "" || p.Annotations[hashKey] != v.ERS.Annotations[hashKey] {
		bad("hash", "template hash %q, replica set records %q", p.Annotations[hashKey], v.ERS.Annotations[hashKey])
	}
	for _, want := range defaultDSTolerations {
		found := false
		for _, tol := range p.Spec.Tolerations {
			if tol.Key == want.Key && tol.Operator == want.Operator && tol.Effect == want.Effect && tol.Value == want.Value && tol.TolerationSeconds == nil {
				found = true
			}
		}
		if !found {
			bad("tolerations", "default DaemonSet toleration %s:%s (unbounded) missing", want.Key, want.Effect)
		}
	}
	// resources
	for _, ct := range p.Spec.Containers {
		want, src, ok := expectedResources(v.EDS.Namespace, v.EDS.Name, node, v.Settings, &v.ERS.Spec.Template, ct.Name)
		if !ok {
			continue
		}
		if src != "template" {
			s.Stats.NonVacuous["C10.resources-"+src]++
		}
		if !apiequality.Semantic.DeepEqual(ct.Resources, want) {
			bad("resources", "container %s resources %v, expected %v (from %s)", ct.Name, ct.Resources, want, src)
		}
	}
}

// c10Current: does the pod of a node reflect the current inputs? (sensitivity, at quiescence)
func (s *Sim) c10Stale(def *EDSDef, tpl *corev1.PodTemplateSpec, n *corev1.Node, p *corev1.Pod) string {
	for _, ct := range p.Spec.Containers {
		want, src, ok := expectedResources(def.NS, def.Name, n, s.Store.Settings(), tpl, ct.Name)
		if !ok || src == "override+setting" {
			continue
		}
		if src == "template" && p.Labels[edsv1.ExtendedDaemonSetSettingNameLabelKey] != "" {
			// built from a setting that does not apply any more: the statement demands
			// replacement only when an applicable setting disagrees with the pod
			continue
		}
		if !apiequality.Semantic.DeepEqual(ct.Resources, want) {
			return fmt.Sprintf("container %s of pod %s has resources %v, inputs (%s) demand %v", ct.Name, p.Name, ct.Resources, src, want)
		}
	}
	return ""
}

// c10ChurnSig: the specific input the known finding is about.
func (s *Sim) c10ChurnSig() string {
	for _, def := range s.W.EDS {
		e := s.Store.GetEDS(def.NS, def.Name)
		if e == nil {
			continue
		}
		for _, n := range s.Store.Nodes() {
			_, src, ok := expectedResources(def.NS, def.Name, n, s.Store.Settings(), &e.Spec.Template, "main")
			if ok && src == "override+setting" {
				return "override+setting"
			}
		}
	}
	return ""
}
