package sim

// simapi: the simulated API server. Only the driver goroutine touches a Store, so it
// needs no lock. Objects are kept as canonical JSON (generic maps re-encoded with sorted
// keys), which gives the round-trip effects of the real server (second-resolution
// timestamps, omitempty, nil/empty normalisation).

import (
	"k8s.io/apimachinery/pkg/util/validation"
	"k8s.io/apimachinery/pkg/util/validation/field"
	"crypto/sha1"
	"encoding/hex"
	"encoding/json"
	"fmt"
	"sort"
	"strconv"
	"strings"
	"time"

	appsv1 "k8s.io/api/apps/v1"
	corev1 "k8s.io/api/core/v1"
	apierrors "k8s.io/apimachinery/pkg/api/errors"
	metav1 "k8s.io/apimachinery/pkg/apis/meta/v1"
	"k8s.io/apimachinery/pkg/labels"
	"k8s.io/apimachinery/pkg/runtime"
	"k8s.io/apimachinery/pkg/runtime/schema"
	clientgoscheme "k8s.io/client-go/kubernetes/scheme"

	edsv1 "github.com/DataDog/extendeddaemonset/api/v1alpha1"
)

const (
	KPod     = "Pod"
	KNode    = "Node"
	KEDS     = "ExtendedDaemonSet"
	KERS     = "ExtendedDaemonSetReplicaSet"
	KSetting = "ExtendedDaemonsetSetting"
	KPodTpl  = "PodTemplate"
	KDS      = "DaemonSet"
)

type kindInfo struct {
	gvk        schema.GroupVersionKind
	resource   string
	namespaced bool
	hasStatus  bool
	crd        bool
	newObj     func() runtime.Object
}

var kinds = map[string]*kindInfo{
	KPod:     {gvk: corev1.SchemeGroupVersion.WithKind(KPod), resource: "pods", namespaced: true, hasStatus: true, newObj: func() runtime.Object { return &corev1.Pod{} }},
	KNode:    {gvk: corev1.SchemeGroupVersion.WithKind(KNode), resource: "nodes", namespaced: false, hasStatus: true, newObj: func() runtime.Object { return &corev1.Node{} }},
	KPodTpl:  {gvk: corev1.SchemeGroupVersion.WithKind(KPodTpl), resource: "podtemplates", namespaced: true, hasStatus: false, newObj: func() runtime.Object { return &corev1.PodTemplate{} }},
	KDS:      {gvk: appsv1.SchemeGroupVersion.WithKind(KDS), resource: "daemonsets", namespaced: true, hasStatus: true, newObj: func() runtime.Object { return &appsv1.DaemonSet{} }},
	KEDS:     {gvk: edsv1.GroupVersion.WithKind(KEDS), resource: "extendeddaemonsets", namespaced: true, hasStatus: true, crd: true, newObj: func() runtime.Object { return &edsv1.ExtendedDaemonSet{} }},
	KERS:     {gvk: edsv1.GroupVersion.WithKind(KERS), resource: "extendeddaemonsetreplicasets", namespaced: true, hasStatus: true, crd: true, newObj: func() runtime.Object { return &edsv1.ExtendedDaemonSetReplicaSet{} }},
	KSetting: {gvk: edsv1.GroupVersion.WithKind(KSetting), resource: "extendeddaemonsetsettings", namespaced: true, hasStatus: true, crd: true, newObj: func() runtime.Object { return &edsv1.ExtendedDaemonsetSetting{} }},
}

var theScheme = func() *runtime.Scheme {
	s := runtime.NewScheme()
	_ = clientgoscheme.AddToScheme(s)
	_ = edsv1.AddToScheme(s)
	return s
}()

func kindOf(obj runtime.Object) (string, error) {
	switch obj.(type) {
	case *corev1.Pod, *corev1.PodList:
		return KPod, nil
	case *corev1.Node, *corev1.NodeList:
		return KNode, nil
	case *corev1.PodTemplate, *corev1.PodTemplateList:
		return KPodTpl, nil
	case *appsv1.DaemonSet, *appsv1.DaemonSetList:
		return KDS, nil
	case *edsv1.ExtendedDaemonSet, *edsv1.ExtendedDaemonSetList:
		return KEDS, nil
	case *edsv1.ExtendedDaemonSetReplicaSet, *edsv1.ExtendedDaemonSetReplicaSetList:
		return KERS, nil
	case *edsv1.ExtendedDaemonsetSetting, *edsv1.ExtendedDaemonsetSettingList:
		return KSetting, nil
	}
	return "", fmt.Errorf("simapi: unsupported type %T", obj)
}

type objKey struct{ Kind, NS, Name string }

func (k objKey) String() string {
	if k.NS == "" {
		return k.Kind + ":" + k.Name
	}
	return k.Kind + ":" + k.NS + "/" + k.Name
}

type jmap = map[string]interface{}

// Store is the durable state of the simulated cluster.
type Store struct {
	objs     map[objKey][]byte
	rv       uint64
	uidSeq   uint64
	nameUsed map[string]int
	// Now returns the API-server clock (controller clock + skew).
	Now func() time.Time
	// writes counts successful mutations (for evidence)
	Writes int
	// hook invoked after every successful mutation (old may be nil on create, new nil on delete)
	OnChange func(k objKey, old, new []byte)
}

func NewStore(now func() time.Time) *Store {
	return &Store{objs: map[objKey][]byte{}, nameUsed: map[string]int{}, Now: now}
}

func (s *Store) nextRV() string { s.rv++; return strconv.FormatUint(s.rv, 10) }

func gr(kind string) schema.GroupResource {
	ki := kinds[kind]
	return schema.GroupResource{Group: ki.gvk.Group, Resource: ki.resource}
}

func toMap(b []byte) jmap {
	var m jmap
	d := json.NewDecoder(strings.NewReader(string(b)))
	d.UseNumber()
	if err := d.Decode(&m); err != nil {
		panic("simapi: bad json: " + err.Error() + ": " + string(b))
	}
	return m
}

func fromMap(m jmap) []byte {
	b, err := json.Marshal(m)
	if err != nil {
		panic(err)
	}
	return b
}

func meta(m jmap) jmap {
	md, ok := m["metadata"].(jmap)
	if !ok {
		md = jmap{}
		m["metadata"] = md
	}
	return md
}

func mstr(m jmap, k string) string {
	v, _ := m[k].(string)
	return v
}

func timeStr(t time.Time) string { return t.UTC().Format(time.RFC3339) }

// encode turns a typed object into a generic map through its JSON form.
func encode(obj runtime.Object) (jmap, error) {
	b, err := json.Marshal(obj)
	if err != nil {
		return nil, err
	}
	return toMap(b), nil
}

// Keys returns all keys of a kind in canonical order.
func (s *Store) Keys(kind string) []objKey {
	var out []objKey
	for k := range s.objs {
		if k.Kind == kind {
			out = append(out, k)
		}
	}
	sort.Slice(out, func(i, j int) bool {
		if out[i].NS != out[j].NS {
			return out[i].NS < out[j].NS
		}
		return out[i].Name < out[j].Name
	})
	return out
}

func (s *Store) Raw(k objKey) ([]byte, bool) { b, ok := s.objs[k]; return b, ok }

// Get returns the stored JSON.
func (s *Store) Get(kind, ns, name string) ([]byte, error) {
	if !kinds[kind].namespaced {
		ns = ""
	}
	b, ok := s.objs[objKey{kind, ns, name}]
	if !ok {
		return nil, apierrors.NewNotFound(gr(kind), name)
	}
	return b, nil
}

// List returns the stored JSON of all objects matching namespace and selector.
func (s *Store) List(kind, ns string, sel labels.Selector) [][]byte {
	var out [][]byte
	for _, k := range s.Keys(kind) {
		if ns != "" && kinds[kind].namespaced && k.NS != ns {
			continue
		}
		b := s.objs[k]
		if sel != nil && !sel.Empty() {
			m := toMap(b)
			lbls := labels.Set{}
			if lm, ok := meta(m)["labels"].(jmap); ok {
				for lk, lv := range lm {
					lbls[lk], _ = lv.(string)
				}
			}
			if !sel.Matches(lbls) {
				continue
			}
		}
		out = append(out, b)
	}
	return out
}

func shortHash(b []byte) string {
	h := sha1.Sum(b)
	return hex.EncodeToString(h[:])[:5]
}

// nameHint lets the caller make generated names stable under trace minimisation.
func (s *Store) genName(kind, ns, prefix string, m jmap) string {
	var hint string
	switch kind {
	case KPod:
		// suffix from the node the pod is pinned to
		spec, _ := m["spec"].(jmap)
		hint = mstr(spec, "nodeName")
		if hint == "" {
			hint = nodeNameFromAffinityMap(spec)
		}
		if hint == "" {
			hint = "x"
		}
	default:
		spec, _ := m["spec"]
		b, _ := json.Marshal(spec)
		hint = shortHash(b)
	}
	base := prefix + hint
	key := kind + "/" + ns + "/" + base
	n := s.nameUsed[key]
	s.nameUsed[key] = n + 1
	if n == 0 {
		return base
	}
	return base + "-" + strconv.Itoa(n+1)
}

func nodeNameFromAffinityMap(spec jmap) string {
	aff, _ := spec["affinity"].(jmap)
	na, _ := aff["nodeAffinity"].(jmap)
	req, _ := na["requiredDuringSchedulingIgnoredDuringExecution"].(jmap)
	terms, _ := req["nodeSelectorTerms"].([]interface{})
	for _, t := range terms {
		tm, _ := t.(jmap)
		fields, _ := tm["matchFields"].([]interface{})
		for _, f := range fields {
			fm, _ := f.(jmap)
			if mstr(fm, "key") == "metadata.name" {
				vals, _ := fm["values"].([]interface{})
				if len(vals) > 0 {
					v, _ := vals[0].(string)
					return v
				}
			}
		}
	}
	return ""
}

func (s *Store) put(k objKey, old []byte, m jmap) []byte {
	meta(m)["resourceVersion"] = s.nextRV()
	b := fromMap(m)
	s.objs[k] = b
	s.Writes++
	if s.OnChange != nil {
		s.OnChange(k, old, b)
	}
	return b
}

// RewriteRaw edits the stored JSON of an object in place (a custom resource is stored exactly as
// its author spelled it, e.g. the quantity "0.5", which the typed round trip would normalise).
func (s *Store) RewriteRaw(k objKey, f func(jmap)) {
	old, ok := s.objs[k]
	if !ok {
		return
	}
	m := toMap(old)
	f(m)
	s.put(k, old, m)
}

// Create stores a new object and returns its stored form.
func (s *Store) Create(kind string, m jmap) ([]byte, error) {
	ki := kinds[kind]
	md := meta(m)
	ns := mstr(md, "namespace")
	if !ki.namespaced {
		ns = ""
		delete(md, "namespace")
	}
	name := mstr(md, "name")
	if name == "" {
		gn := mstr(md, "generateName")
		if gn == "" {
			return nil, apierrors.NewInvalid(ki.gvk.GroupKind(), "", nil)
		}
		name = s.genName(kind, ns, gn, m)
		md["name"] = name
	}
	k := objKey{kind, ns, name}
	if _, ok := s.objs[k]; ok {
		return nil, apierrors.NewAlreadyExists(gr(kind), name)
	}
	// label values are validated by the API server (63 characters, restricted alphabet)
	if lbls, ok := md["labels"].(jmap); ok {
		for _, lk := range sortedKeys(lbls) {
			if v, _ := lbls[lk].(string); len(validation.IsValidLabelValue(v)) > 0 {
				return nil, apierrors.NewInvalid(ki.gvk.GroupKind(), name, field.ErrorList{field.Invalid(field.NewPath("metadata", "labels"), v, "invalid label value")})
			}
		}
	}
	if rv := mstr(md, "resourceVersion"); rv != "" {
		return nil, apierrors.NewBadRequest("resourceVersion should not be set on objects to be created")
	}
	s.uidSeq++
	md["uid"] = fmt.Sprintf("uid-%06d", s.uidSeq)
	md["creationTimestamp"] = timeStr(s.Now())
	delete(md, "deletionTimestamp")
	delete(md, "deletionGracePeriodSeconds")
	m["apiVersion"] = ki.gvk.GroupVersion().String()
	m["kind"] = kind
	if ki.hasStatus && ki.crd {
		// a CRD with the status subresource drops status on create
		delete(m, "status")
	}
	if kind == KPod {
		// the pod registry resets status on create
		m["status"] = jmap{"phase": "Pending"}
	}
	return s.put(k, nil, m), nil
}

// Inject stores an object as given (state injection): status and creationTimestamp are
// kept, uid and resourceVersion are assigned.
func (s *Store) Inject(obj runtime.Object) {
	kind, err := kindOf(obj)
	if err != nil {
		panic(err)
	}
	m, err := encode(obj)
	if err != nil {
		panic(err)
	}
	ki := kinds[kind]
	md := meta(m)
	if !ki.namespaced {
		delete(md, "namespace")
	}
	k := keyOfMap(kind, m)
	if k.Name == "" {
		panic("simapi: inject without name")
	}
	if mstr(md, "uid") == "" {
		s.uidSeq++
		md["uid"] = fmt.Sprintf("uid-%06d", s.uidSeq)
	}
	if _, ok := md["creationTimestamp"]; !ok || md["creationTimestamp"] == nil {
		md["creationTimestamp"] = timeStr(s.Now())
	}
	m["apiVersion"] = ki.gvk.GroupVersion().String()
	m["kind"] = kind
	s.put(k, s.objs[k], m)
}

var serverMeta = []string{"uid", "creationTimestamp", "deletionTimestamp", "deletionGracePeriodSeconds", "generation"}

func (s *Store) checkRV(kind string, k objKey, stored, incoming jmap) error {
	rv := mstr(meta(incoming), "resourceVersion")
	if rv == "" {
		if kinds[kind].crd {
			return apierrors.NewInvalid(kinds[kind].gvk.GroupKind(), k.Name, nil)
		}
		return nil
	}
	if rv != mstr(meta(stored), "resourceVersion") {
		return apierrors.NewConflict(gr(kind), k.Name, fmt.Errorf("the object has been modified; please apply your changes to the latest version and try again"))
	}
	return nil
}

func keyOfMap(kind string, m jmap) objKey {
	md := meta(m)
	ns := mstr(md, "namespace")
	if !kinds[kind].namespaced {
		ns = ""
	}
	return objKey{kind, ns, mstr(md, "name")}
}

// Update replaces everything but status (for kinds with the status subresource).
func (s *Store) Update(kind string, m jmap) ([]byte, error) {
	k := keyOfMap(kind, m)
	old, ok := s.objs[k]
	if !ok {
		return nil, apierrors.NewNotFound(gr(kind), k.Name)
	}
	stored := toMap(old)
	if err := s.checkRV(kind, k, stored, m); err != nil {
		return nil, err
	}
	smd, md := meta(stored), meta(m)
	if u := mstr(md, "uid"); u != "" && u != mstr(smd, "uid") {
		return nil, apierrors.NewConflict(gr(kind), k.Name, fmt.Errorf("uid mismatch"))
	}
	for _, f := range serverMeta {
		if v, ok := smd[f]; ok {
			md[f] = v
		} else {
			delete(md, f)
		}
	}
	if kinds[kind].hasStatus {
		if st, ok := stored["status"]; ok {
			m["status"] = st
		} else {
			delete(m, "status")
		}
	}
	m["apiVersion"] = stored["apiVersion"]
	m["kind"] = stored["kind"]
	return s.put(k, old, m), nil
}

// UpdateStatus replaces only status.
func (s *Store) UpdateStatus(kind string, m jmap) ([]byte, error) {
	k := keyOfMap(kind, m)
	old, ok := s.objs[k]
	if !ok {
		return nil, apierrors.NewNotFound(gr(kind), k.Name)
	}
	if !kinds[kind].hasStatus {
		return nil, apierrors.NewNotFound(gr(kind), k.Name+"/status")
	}
	stored := toMap(old)
	if err := s.checkRV(kind, k, stored, m); err != nil {
		return nil, err
	}
	if st, ok := m["status"]; ok {
		stored["status"] = st
	} else {
		delete(stored, "status")
	}
	return s.put(k, old, stored), nil
}

func mergePatch(dst jmap, patch jmap) {
	for k, v := range patch {
		if v == nil {
			delete(dst, k)
			continue
		}
		pm, isMap := v.(jmap)
		if !isMap {
			dst[k] = v
			continue
		}
		dm, ok := dst[k].(jmap)
		if !ok {
			dm = jmap{}
			dst[k] = dm
		}
		mergePatch(dm, pm)
	}
}

// Patch applies a JSON merge patch to everything but status.
func (s *Store) Patch(kind, ns, name string, patch []byte) ([]byte, error) {
	if !kinds[kind].namespaced {
		ns = ""
	}
	k := objKey{kind, ns, name}
	old, ok := s.objs[k]
	if !ok {
		return nil, apierrors.NewNotFound(gr(kind), name)
	}
	stored := toMap(old)
	pm := toMap(patch)
	if pmd, ok := pm["metadata"].(jmap); ok {
		if rv := mstr(pmd, "resourceVersion"); rv != "" && rv != mstr(meta(stored), "resourceVersion") {
			return nil, apierrors.NewConflict(gr(kind), name, fmt.Errorf("the object has been modified"))
		}
		for _, f := range serverMeta {
			delete(pmd, f)
		}
		delete(pmd, "resourceVersion")
		delete(pmd, "name")
		delete(pmd, "namespace")
	}
	if kinds[kind].hasStatus {
		delete(pm, "status")
	}
	mergePatch(stored, pm)
	return s.put(k, old, stored), nil
}

// PatchStatus applies a JSON merge patch to status only.
func (s *Store) PatchStatus(kind, ns, name string, patch []byte) ([]byte, error) {
	if !kinds[kind].namespaced {
		ns = ""
	}
	k := objKey{kind, ns, name}
	old, ok := s.objs[k]
	if !ok || !kinds[kind].hasStatus {
		return nil, apierrors.NewNotFound(gr(kind), name)
	}
	stored := toMap(old)
	pm := toMap(patch)
	if pmd, ok := pm["metadata"].(jmap); ok {
		if rv := mstr(pmd, "resourceVersion"); rv != "" && rv != mstr(meta(stored), "resourceVersion") {
			return nil, apierrors.NewConflict(gr(kind), name, fmt.Errorf("the object has been modified"))
		}
	}
	sp, has := pm["status"]
	if !has {
		return old, nil
	}
	if sp == nil {
		delete(stored, "status")
	} else if spm, ok := sp.(jmap); ok {
		st, _ := stored["status"].(jmap)
		if st == nil {
			st = jmap{}
			stored["status"] = st
		}
		mergePatch(st, spm)
	}
	return s.put(k, old, stored), nil
}

// Delete removes an object; pods bound to a node become Terminating first.
func (s *Store) Delete(kind, ns, name string) error {
	if !kinds[kind].namespaced {
		ns = ""
	}
	k := objKey{kind, ns, name}
	old, ok := s.objs[k]
	if !ok {
		return apierrors.NewNotFound(gr(kind), name)
	}
	if kind == KPod {
		m := toMap(old)
		spec, _ := m["spec"].(jmap)
		st, _ := m["status"].(jmap)
		phase := mstr(st, "phase")
		if mstr(spec, "nodeName") != "" && phase != "Failed" && phase != "Succeeded" {
			md := meta(m)
			if _, already := md["deletionTimestamp"]; already {
				return nil
			}
			grace := int64(30)
			if g, ok := spec["terminationGracePeriodSeconds"].(json.Number); ok {
				grace, _ = g.Int64()
			}
			md["deletionTimestamp"] = timeStr(s.Now().Add(time.Duration(grace) * time.Second))
			md["deletionGracePeriodSeconds"] = json.Number(strconv.FormatInt(grace, 10))
			s.put(k, old, m)
			return nil
		}
	}
	s.Remove(k)
	return nil
}

// Remove deletes the object at once (finalisation by kubelet, GC).
func (s *Store) Remove(k objKey) {
	old, ok := s.objs[k]
	if !ok {
		return
	}
	delete(s.objs, k)
	s.rv++
	s.Writes++
	if s.OnChange != nil {
		s.OnChange(k, old, nil)
	}
}

// --- typed helpers for actors, generators and monitors -------------------------------------

func decodeInto(b []byte, obj interface{}) {
	if err := json.Unmarshal(b, obj); err != nil {
		panic("simapi: decode: " + err.Error())
	}
}

func (s *Store) GetPod(ns, name string) *corev1.Pod {
	b, err := s.Get(KPod, ns, name)
	if err != nil {
		return nil
	}
	p := &corev1.Pod{}
	decodeInto(b, p)
	return p
}

func (s *Store) Pods() []*corev1.Pod {
	var out []*corev1.Pod
	for _, k := range s.Keys(KPod) {
		p := &corev1.Pod{}
		decodeInto(s.objs[k], p)
		out = append(out, p)
	}
	return out
}

func (s *Store) Nodes() []*corev1.Node {
	var out []*corev1.Node
	for _, k := range s.Keys(KNode) {
		n := &corev1.Node{}
		decodeInto(s.objs[k], n)
		out = append(out, n)
	}
	return out
}

func (s *Store) GetNode(name string) *corev1.Node {
	b, err := s.Get(KNode, "", name)
	if err != nil {
		return nil
	}
	n := &corev1.Node{}
	decodeInto(b, n)
	return n
}

func (s *Store) GetEDS(ns, name string) *edsv1.ExtendedDaemonSet {
	b, err := s.Get(KEDS, ns, name)
	if err != nil {
		return nil
	}
	o := &edsv1.ExtendedDaemonSet{}
	decodeInto(b, o)
	return o
}

func (s *Store) EDSs() []*edsv1.ExtendedDaemonSet {
	var out []*edsv1.ExtendedDaemonSet
	for _, k := range s.Keys(KEDS) {
		o := &edsv1.ExtendedDaemonSet{}
		decodeInto(s.objs[k], o)
		out = append(out, o)
	}
	return out
}

func (s *Store) GetERS(ns, name string) *edsv1.ExtendedDaemonSetReplicaSet {
	b, err := s.Get(KERS, ns, name)
	if err != nil {
		return nil
	}
	o := &edsv1.ExtendedDaemonSetReplicaSet{}
	decodeInto(b, o)
	return o
}

func (s *Store) ERSs() []*edsv1.ExtendedDaemonSetReplicaSet {
	var out []*edsv1.ExtendedDaemonSetReplicaSet
	for _, k := range s.Keys(KERS) {
		o := &edsv1.ExtendedDaemonSetReplicaSet{}
		decodeInto(s.objs[k], o)
		out = append(out, o)
	}
	return out
}

func (s *Store) Settings() []*edsv1.ExtendedDaemonsetSetting {
	var out []*edsv1.ExtendedDaemonsetSetting
	for _, k := range s.Keys(KSetting) {
		o := &edsv1.ExtendedDaemonsetSetting{}
		decodeInto(s.objs[k], o)
		out = append(out, o)
	}
	return out
}

// CreateObj / UpdateObj / UpdateStatusObj are conveniences for actors (they bypass
// optimistic concurrency by reading the stored resourceVersion first when asked).
func (s *Store) CreateObj(obj runtime.Object) ([]byte, error) {
	kind, err := kindOf(obj)
	if err != nil {
		return nil, err
	}
	m, err := encode(obj)
	if err != nil {
		return nil, err
	}
	return s.Create(kind, m)
}

// ForceUpdate writes spec+metadata and status of a typed object regardless of version.
func (s *Store) ForceUpdate(obj runtime.Object) {
	kind, _ := kindOf(obj)
	m, err := encode(obj)
	if err != nil {
		panic(err)
	}
	k := keyOfMap(kind, m)
	old, ok := s.objs[k]
	if !ok {
		return
	}
	stored := toMap(old)
	smd, md := meta(stored), meta(m)
	for _, f := range append([]string{"resourceVersion"}, serverMeta...) {
		if _, keep := md[f]; keep && (f == "deletionTimestamp" || f == "deletionGracePeriodSeconds" || f == "creationTimestamp") {
			continue // actors may set these
		}
		if v, ok := smd[f]; ok {
			md[f] = v
		}
	}
	m["apiVersion"] = stored["apiVersion"]
	m["kind"] = stored["kind"]
	s.put(k, old, m)
}

var _ = metav1.Now
