package sim

import (
	"context"
	"encoding/json"
	"fmt"
	"reflect"
	"sync/atomic"

	apimeta "k8s.io/apimachinery/pkg/api/meta"
	"k8s.io/apimachinery/pkg/runtime"
	"k8s.io/apimachinery/pkg/runtime/schema"
	"sigs.k8s.io/controller-runtime/pkg/client"
)

type runtimeObject = runtime.Object

// ctrlClient is the client.Client handed to real code. Every method parks at the gate.
type ctrlClient struct {
	sim   *Sim
	ctrl  string
	fixed *Task // cli: the one task using this client
	dead  atomic.Bool
	direct bool // executes at once (differential test of the stub)
}

var _ client.Client = (*ctrlClient)(nil)

func (c *ctrlClient) task() *Task {
	if c.fixed != nil {
		return c.fixed
	}
	// only read by goroutines of the task the driver has just released, while the driver
	// itself is blocked in synctest.Wait: no concurrent writer.
	return c.sim.inflight[c.ctrl]
}

func (c *ctrlClient) do(call *Call) error {
	if c.direct {
		// stub-fidelity test: no gate, no task
		call.Task = &Task{Ctrl: "direct"}
		c.sim.exec(call)
		return call.Err
	}
	if c.dead.Load() {
		return errCrashed
	}
	t := c.task()
	if t == nil || t.Crashed {
		return errCrashed
	}
	call.Task = t
	c.sim.gate(call)
	return call.Err
}

func resetObj(obj interface{}) {
	v := reflect.ValueOf(obj).Elem()
	v.Set(reflect.Zero(v.Type()))
}

func (c *ctrlClient) Get(ctx context.Context, key client.ObjectKey, obj client.Object, opts ...client.GetOption) error {
	kind, err := kindOf(obj)
	if err != nil {
		return err
	}
	call := &Call{Verb: "get", Kind: kind, NS: key.Namespace, Name: key.Name}
	if !kinds[kind].namespaced {
		call.NS = ""
	}
	if err := c.do(call); err != nil {
		return err
	}
	resetObj(obj)
	return json.Unmarshal(call.Out, obj)
}

func (c *ctrlClient) List(ctx context.Context, list client.ObjectList, opts ...client.ListOption) error {
	kind, err := kindOf(list)
	if err != nil {
		return err
	}
	lo := client.ListOptions{}
	lo.ApplyOptions(opts)
	if lo.FieldSelector != nil && !lo.FieldSelector.Empty() {
		return fmt.Errorf("simapi: field selectors not supported")
	}
	call := &Call{Verb: "list", Kind: kind, NS: lo.Namespace, Selector: lo.LabelSelector}
	if lo.LabelSelector != nil {
		call.SelStr = lo.LabelSelector.String()
	}
	if err := c.do(call); err != nil {
		return err
	}
	items := make([]runtime.Object, 0, len(call.OutList))
	for _, b := range call.OutList {
		o := kinds[kind].newObj()
		if err := json.Unmarshal(b, o); err != nil {
			return err
		}
		items = append(items, o)
	}
	resetObj(list)
	return apimeta.SetList(list, items)
}

func (c *ctrlClient) write(verb string, obj client.Object) error {
	kind, err := kindOf(obj)
	if err != nil {
		return err
	}
	m, err := encode(obj)
	if err != nil {
		return err
	}
	call := &Call{Verb: verb, Kind: kind, NS: obj.GetNamespace(), Name: obj.GetName(), Obj: m}
	if !kinds[kind].namespaced {
		call.NS = ""
	}
	if kind == KPod && verb == "create" {
		spec, _ := m["spec"].(jmap)
		call.Node = mstr(spec, "nodeName")
		if call.Node == "" {
			call.Node = nodeNameFromAffinityMap(spec)
		}
	}
	if err := c.do(call); err != nil {
		return err
	}
	if call.Out != nil {
		resetObj(obj)
		return json.Unmarshal(call.Out, obj)
	}
	return nil
}

func (c *ctrlClient) Create(ctx context.Context, obj client.Object, opts ...client.CreateOption) error {
	return c.write("create", obj)
}

func (c *ctrlClient) Update(ctx context.Context, obj client.Object, opts ...client.UpdateOption) error {
	return c.write("update", obj)
}

func (c *ctrlClient) Delete(ctx context.Context, obj client.Object, opts ...client.DeleteOption) error {
	kind, err := kindOf(obj)
	if err != nil {
		return err
	}
	call := &Call{Verb: "delete", Kind: kind, NS: obj.GetNamespace(), Name: obj.GetName()}
	if !kinds[kind].namespaced {
		call.NS = ""
	}
	return c.do(call)
}

func (c *ctrlClient) Patch(ctx context.Context, obj client.Object, patch client.Patch, opts ...client.PatchOption) error {
	kind, err := kindOf(obj)
	if err != nil {
		return err
	}
	data, err := patch.Data(obj)
	if err != nil {
		return err
	}
	if patch.Type() != "application/merge-patch+json" {
		return fmt.Errorf("simapi: patch type %s not supported", patch.Type())
	}
	call := &Call{Verb: "patch", Kind: kind, NS: obj.GetNamespace(), Name: obj.GetName(), Patch: data}
	if !kinds[kind].namespaced {
		call.NS = ""
	}
	if err := c.do(call); err != nil {
		return err
	}
	resetObj(obj)
	return json.Unmarshal(call.Out, obj)
}

func (c *ctrlClient) DeleteAllOf(ctx context.Context, obj client.Object, opts ...client.DeleteAllOfOption) error {
	return fmt.Errorf("simapi: DeleteAllOf not supported")
}

type statusWriter struct{ c *ctrlClient }

func (c *ctrlClient) Status() client.SubResourceWriter { return statusWriter{c} }

func (c *ctrlClient) SubResource(sub string) client.SubResourceClient {
	panic("simapi: SubResource(" + sub + ") not supported")
}

func (w statusWriter) Create(ctx context.Context, obj client.Object, sub client.Object, opts ...client.SubResourceCreateOption) error {
	return fmt.Errorf("simapi: status create not supported")
}

func (w statusWriter) Update(ctx context.Context, obj client.Object, opts ...client.SubResourceUpdateOption) error {
	return w.c.write("updatestatus", obj)
}

func (w statusWriter) Patch(ctx context.Context, obj client.Object, patch client.Patch, opts ...client.SubResourcePatchOption) error {
	kind, err := kindOf(obj)
	if err != nil {
		return err
	}
	data, err := patch.Data(obj)
	if err != nil {
		return err
	}
	if patch.Type() != "application/merge-patch+json" {
		return fmt.Errorf("simapi: patch type %s not supported", patch.Type())
	}
	call := &Call{Verb: "patchstatus", Kind: kind, NS: obj.GetNamespace(), Name: obj.GetName(), Patch: data}
	if !kinds[kind].namespaced {
		call.NS = ""
	}
	if err := w.c.do(call); err != nil {
		return err
	}
	resetObj(obj)
	return json.Unmarshal(call.Out, obj)
}

func (c *ctrlClient) Scheme() *runtime.Scheme         { return theScheme }
func (c *ctrlClient) RESTMapper() apimeta.RESTMapper { return nil }
func (c *ctrlClient) GroupVersionKindFor(obj runtime.Object) (schema.GroupVersionKind, error) {
	k, err := kindOf(obj)
	if err != nil {
		return schema.GroupVersionKind{}, err
	}
	return kinds[k].gvk, nil
}

func (c *ctrlClient) IsObjectNamespaced(obj runtime.Object) (bool, error) {
	k, err := kindOf(obj)
	if err != nil {
		return false, err
	}
	return kinds[k].namespaced, nil
}
