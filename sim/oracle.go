package sim

// Oracle vocabulary (DESIGN §4). Nothing here calls the repository's decision functions.

import (
	"k8s.io/apimachinery/pkg/api/resource"
	"sort"
	"strings"
	"time"

	autoscalingv1 "k8s.io/api/autoscaling/v1"
	corev1 "k8s.io/api/core/v1"
	"k8s.io/apimachinery/pkg/util/intstr"

	edsv1 "github.com/DataDog/extendeddaemonset/api/v1alpha1"
)

func refTo(name string) *autoscalingv1.CrossVersionObjectReference {
	return &autoscalingv1.CrossVersionObjectReference{Kind: "ExtendedDaemonset", Name: name}
}

func letterOfImage(img string) string {
	if strings.HasPrefix(img, "img:") {
		return img[4:]
	}
	return "?" + img
}

func letterOfPod(p *corev1.Pod) string {
	if len(p.Spec.Containers) == 0 {
		return "?"
	}
	return letterOfImage(p.Spec.Containers[0].Image) + spellingOf(&p.Spec.Containers[0]) + checksumOf(p.Annotations)
}

const checksumAnnotation = "checksum/config"

// checksumOf: the variant of a template that differs from its twin only in the pod metadata (a
// config checksum annotation) is template X^.
func checksumOf(anns map[string]string) string {
	if anns[checksumAnnotation] != "" {
		return "^"
	}
	return ""
}

// spellingOf: templates that differ only in how a quantity is written ("128Mi" / "134217728") are
// different templates for the controller (the hash is taken over the serialised form); the variant
// written in plain decimal is template X~.
func spellingOf(c *corev1.Container) string {
	if q, ok := c.Resources.Requests[corev1.ResourceMemory]; ok && q.Format == resource.DecimalSI {
		return "~"
	}
	return ""
}

func letterOfTpl(t *corev1.PodTemplateSpec) string {
	if len(t.Spec.Containers) == 0 {
		return "?"
	}
	return letterOfImage(t.Spec.Containers[0].Image) + spellingOf(&t.Spec.Containers[0]) + checksumOf(t.Annotations)
}

// podNode is the node a pod is bound or pinned to.
func podNode(p *corev1.Pod) string {
	if p.Spec.NodeName != "" {
		return p.Spec.NodeName
	}
	if a := p.Spec.Affinity; a != nil && a.NodeAffinity != nil && a.NodeAffinity.RequiredDuringSchedulingIgnoredDuringExecution != nil {
		for _, t := range a.NodeAffinity.RequiredDuringSchedulingIgnoredDuringExecution.NodeSelectorTerms {
			for _, f := range t.MatchFields {
				if f.Key == "metadata.name" && len(f.Values) > 0 {
					return f.Values[0]
				}
			}
		}
	}
	return ""
}

func podReady(p *corev1.Pod) bool {
	for _, c := range p.Status.Conditions {
		if c.Type == corev1.PodReady {
			return c.Status == corev1.ConditionTrue
		}
	}
	return false
}

func terminating(p *corev1.Pod) bool { return p.DeletionTimestamp != nil }

var defaultDSTolerations = []corev1.Toleration{
	{Key: "node.kubernetes.io/not-ready", Operator: corev1.TolerationOpExists, Effect: corev1.TaintEffectNoExecute},
	{Key: "node.kubernetes.io/unreachable", Operator: corev1.TolerationOpExists, Effect: corev1.TaintEffectNoExecute},
	{Key: "node.kubernetes.io/disk-pressure", Operator: corev1.TolerationOpExists, Effect: corev1.TaintEffectNoSchedule},
	{Key: "node.kubernetes.io/memory-pressure", Operator: corev1.TolerationOpExists, Effect: corev1.TaintEffectNoSchedule},
	{Key: "node.kubernetes.io/unschedulable", Operator: corev1.TolerationOpExists, Effect: corev1.TaintEffectNoSchedule},
}

func matchExpr(lbls map[string]string, e corev1.NodeSelectorRequirement) bool {
	v, has := lbls[e.Key]
	switch e.Operator {
	case corev1.NodeSelectorOpIn:
		if !has {
			return false
		}
		for _, x := range e.Values {
			if x == v {
				return true
			}
		}
		return false
	case corev1.NodeSelectorOpNotIn:
		if !has {
			return true
		}
		for _, x := range e.Values {
			if x == v {
				return false
			}
		}
		return true
	case corev1.NodeSelectorOpExists:
		return has
	case corev1.NodeSelectorOpDoesNotExist:
		return !has
	}
	return false
}

// eligibleSpec: node selector, required node affinity, NoSchedule/NoExecute taints against
// the pod spec's tolerations plus the tolerations every DaemonSet pod carries.
func eligibleSpec(node *corev1.Node, spec *corev1.PodSpec) bool {
	for k, v := range spec.NodeSelector {
		// the node must carry the label (a selector entry with an empty value is not satisfied by a
		// node without the key)
		if have, ok := node.Labels[k]; !ok || have != v {
			return false
		}
	}
	if a := spec.Affinity; a != nil && a.NodeAffinity != nil && a.NodeAffinity.RequiredDuringSchedulingIgnoredDuringExecution != nil {
		ok := false
		for _, term := range a.NodeAffinity.RequiredDuringSchedulingIgnoredDuringExecution.NodeSelectorTerms {
			if len(term.MatchExpressions) == 0 && len(term.MatchFields) == 0 {
				continue
			}
			all := true
			for _, e := range term.MatchExpressions {
				if !matchExpr(node.Labels, e) {
					all = false
				}
			}
			for _, f := range term.MatchFields {
				if f.Key != "metadata.name" || !matchExpr(map[string]string{"metadata.name": node.Name}, f) {
					all = false
				}
			}
			if all {
				ok = true
			}
		}
		if !ok {
			return false
		}
	}
	tols := append(append([]corev1.Toleration{}, spec.Tolerations...), defaultDSTolerations...)
	for i := range node.Spec.Taints {
		t := &node.Spec.Taints[i]
		if t.Effect != corev1.TaintEffectNoSchedule && t.Effect != corev1.TaintEffectNoExecute {
			continue
		}
		tolerated := false
		for j := range tols {
			if tols[j].ToleratesTaint(t) {
				tolerated = true
				break
			}
		}
		if !tolerated {
			return false
		}
	}
	return true
}

func eligible(node *corev1.Node, t *TemplateDef) bool {
	spec := t.Spec().Spec
	return eligibleSpec(node, &spec)
}

// isDaemonPod: pods in the EDS namespace carrying its name label.
func isDaemonPod(p *corev1.Pod, ns, name string) bool {
	return p.Namespace == ns && p.Labels[edsv1.ExtendedDaemonSetNameLabelKey] == name
}

func ownedByDS(p *corev1.Pod, ds string) bool {
	for _, r := range p.OwnerReferences {
		if r.Kind == "DaemonSet" && r.Name == ds {
			return true
		}
	}
	return false
}

func resolvePct(v *intstr.IntOrString, total int, up bool) (int, bool) {
	if v == nil {
		return 0, false
	}
	n, err := intstr.GetScaledValueFromIntOrPercent(v, total, up)
	if err != nil {
		return 0, false
	}
	return n, true
}

func ersCond(st *edsv1.ExtendedDaemonSetReplicaSetStatus, t edsv1.ExtendedDaemonSetReplicaSetConditionType) *edsv1.ExtendedDaemonSetReplicaSetCondition {
	for i := range st.Conditions {
		if st.Conditions[i].Type == t {
			return &st.Conditions[i]
		}
	}
	return nil
}

func ersCondTrue(st *edsv1.ExtendedDaemonSetReplicaSetStatus, t edsv1.ExtendedDaemonSetReplicaSetConditionType) bool {
	c := ersCond(st, t)
	return c != nil && c.Status == corev1.ConditionTrue
}

func edsCond(st *edsv1.ExtendedDaemonSetStatus, t edsv1.ExtendedDaemonSetConditionType) *edsv1.ExtendedDaemonSetCondition {
	for i := range st.Conditions {
		if st.Conditions[i].Type == t {
			return &st.Conditions[i]
		}
	}
	return nil
}

func maxRestart(p *corev1.Pod) int32 {
	var m int32
	for _, cs := range [][]corev1.ContainerStatus{p.Status.ContainerStatuses, p.Status.InitContainerStatuses} {
		for _, c := range cs {
			if c.RestartCount > m {
				m = c.RestartCount
			}
		}
	}
	return m
}

func sumRestarts(p *corev1.Pod) int {
	n := 0
	for _, c := range p.Status.ContainerStatuses {
		n += int(c.RestartCount)
	}
	return n
}

var cannotStartSet = map[string]bool{
	"ErrImagePull": true, "ImagePullBackOff": true, "ImageInspectError": true, "ErrImageNeverPull": true,
	"RegistryUnavailable": true, "InvalidImageName": true, "CreateContainerConfigError": true,
	"CreateContainerError": true, "PreStartHookError": true, "PostStartHookError": true, "PreCreateHookError": true,
}

func waitingReason(p *corev1.Pod) string {
	for _, c := range p.Status.ContainerStatuses {
		if c.State.Waiting != nil {
			return c.State.Waiting.Reason
		}
	}
	return ""
}

// sortPodsKeeper orders candidate pods: scheduled first, then oldest creation time.
func keeperOrder(pods []*corev1.Pod) {
	sort.SliceStable(pods, func(i, j int) bool {
		si, sj := pods[i].Spec.NodeName != "", pods[j].Spec.NodeName != ""
		if si != sj {
			return si
		}
		return pods[i].CreationTimestamp.Time.Before(pods[j].CreationTimestamp.Time)
	})
}

func sameKeeperRank(a, b *corev1.Pod) bool {
	return (a.Spec.NodeName != "") == (b.Spec.NodeName != "") && a.CreationTimestamp.Time.Equal(b.CreationTimestamp.Time)
}

func durOf(d *time.Duration) time.Duration {
	if d == nil {
		return 0
	}
	return *d
}

// isAnyDaemonPod: carries the name label of some ExtendedDaemonSet.
func isAnyDaemonPod(p *corev1.Pod) bool { return p.Labels[edsv1.ExtendedDaemonSetNameLabelKey] != "" }
