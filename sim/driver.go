package sim

import (
	metav1 "k8s.io/apimachinery/pkg/apis/meta/v1"
	"github.com/DataDog/extendeddaemonset/pkg/controller/utils/comparison"
	"fmt"
	"math/rand/v2"
	"sort"
	"strings"
	"testing/synctest"
	"time"

	corev1 "k8s.io/api/core/v1"
	"k8s.io/apimachinery/pkg/types"

	edsv1 "github.com/DataDog/extendeddaemonset/api/v1alpha1"

	"verif/sim/simorder"
)

// Monitor hooks. PreCall runs before a granted call touches the store, PostCall after.
type Monitor interface {
	Name() string
	PreCall(s *Sim, c *Call)
	PostCall(s *Sim, c *Call)
	TaskEnd(s *Sim, t *Task)
	RoundEnd(s *Sim, round int)
	Quiesced(s *Sim)
}

type baseMon struct{}

func (baseMon) PreCall(*Sim, *Call)  {}
func (baseMon) PostCall(*Sim, *Call) {}
func (baseMon) TaskEnd(*Sim, *Task)  {}
func (baseMon) RoundEnd(*Sim, int)   {}
func (baseMon) Quiesced(*Sim)        {}

func NewSim(seed uint64, w *World) *Sim {
	s := &Sim{Seed: seed, W: w, inflight: map[string]*Task{}, Stats: newStats()}
	s.rngSched = subRng(seed, "sched")
	s.rngFault = subRng(seed, "fault")
	s.rngEnv = subRng(seed, "env")
	return s
}

// init must be called inside the bubble.
func (s *Sim) init() {
	s.start = time.Now()
	s.Store = NewStore(func() time.Time { return time.Now().Add(time.Duration(s.W.Cfg.SkewSec) * time.Second) })
	s.queue = map[string]bool{}
	s.Store.OnChange = s.notify
	simorder.SetSeed(s.Seed | 1)
	simorder.SetMode(int32(s.W.Cfg.MapOrder))
	simorder.SetSalt(0)
	s.buildReconcilers()
}

// ---------------------------------------------------------------------------------------
// work queue model: which reconcile requests the watches would have produced

func reqKey(ctrl, ns, name string) string { return ctrl + " " + ns + "/" + name }

func (s *Sim) enqueue(ctrl, ns, name string) {
	if name != "" {
		s.queue[reqKey(ctrl, ns, name)] = true
	}
}

func (s *Sim) notify(k objKey, old, new []byte) {
	b := new
	if b == nil {
		b = old
	}
	m := toMap(b)
	md := meta(m)
	lbls, _ := md["labels"].(jmap)
	switch k.Kind {
	case KEDS:
		s.enqueue(CtrlEDS, k.NS, k.Name)
		s.enqueue(CtrlPodTpl, k.NS, k.Name)
		for _, bb := range [][]byte{old, new} {
			if bb != nil {
				st, _ := toMap(bb)["status"].(jmap)
				s.enqueue(CtrlERS, k.NS, mstr(st, "activeReplicaSet"))
			}
		}
	case KERS:
		s.enqueue(CtrlERS, k.NS, k.Name)
		s.enqueue(CtrlEDS, k.NS, mstr(lbls, edsv1.ExtendedDaemonSetNameLabelKey))
	case KPod:
		s.enqueue(CtrlEDS, k.NS, mstr(lbls, edsv1.ExtendedDaemonSetNameLabelKey))
		s.enqueue(CtrlERS, k.NS, mstr(lbls, edsv1.ExtendedDaemonSetReplicaSetNameLabelKey))
	case KNode:
		if old == nil || new == nil {
			for _, ek := range s.Store.Keys(KERS) {
				s.enqueue(CtrlERS, ek.NS, ek.Name)
			}
		}
	case KSetting:
		s.enqueue(CtrlSetting, k.NS, k.Name)
	case KPodTpl:
		s.enqueue(CtrlPodTpl, k.NS, k.Name)
	}
}

// requeue hints of a finished task go back into the queue.
func (s *Sim) requeueHint(t *Task) {
	if t.Ctrl == CtrlCLI || t.Crashed {
		return
	}
	if t.Err != nil || t.Result.Requeue || t.Result.RequeueAfter > 0 {
		s.queue[reqKey(t.Ctrl, t.Key.Namespace, t.Key.Name)] = true
	}
}

// ---------------------------------------------------------------------------------------
// enabled actions

func (s *Sim) startTargets(ctrl string) []objKey {
	switch ctrl {
	case CtrlEDS, CtrlPodTpl:
		return s.Store.Keys(KEDS)
	case CtrlERS:
		return s.Store.Keys(KERS)
	case CtrlSetting:
		return s.Store.Keys(KSetting)
	}
	return nil
}

func (s *Sim) starved(ctrl string) bool {
	return !s.replaying && s.W.Cfg.Policy == "starver" && s.W.Cfg.Starve == ctrl && (s.step/25)%2 == 0
}

func (s *Sim) enabled() map[string][]Action {
	cfg := &s.W.Cfg
	out := map[string][]Action{}
	for _, c := range s.canonicalPending() {
		c := c
		if s.starved(c.Task.Ctrl) {
			continue
		}
		out["grant"] = append(out["grant"], Action{A: "grant", K: c.Task.Ctrl + " " + c.Desc(), Do: nil})
		_ = c
	}
	for _, ctrl := range ctrlNames {
		if s.inflight[ctrl] != nil || s.starved(ctrl) {
			continue
		}
		for _, k := range s.startTargets(ctrl) {
			k, ctrl := k, ctrl
			cls := "start"
			if s.queue[reqKey(ctrl, k.NS, k.Name)] {
				cls = "startq"
			}
			out[cls] = append(out[cls], Action{A: "start", K: reqKey(ctrl, k.NS, k.Name), Do: func() {
				delete(s.queue, reqKey(ctrl, k.NS, k.Name))
				s.StartReconcile(ctrl, types.NamespacedName{Namespace: k.NS, Name: k.Name})
			}})
		}
	}
	if cfg.Kubelet {
		for _, a := range s.kubeletActions(cfg.KubeletFaults) {
			if strings.HasPrefix(a.K, "kubelet.settle") || strings.HasPrefix(a.K, "kubelet.finalize") || strings.HasPrefix(a.K, "sched.bind") || strings.HasPrefix(a.K, "kubelet.start") {
				out["kubelet"] = append(out["kubelet"], a)
			} else {
				out["kfault"] = append(out["kfault"], a)
			}
		}
		out["gc"] = s.gcActions()
	}
	if cfg.NodeChurn {
		out["admin"] = s.adminActions()
	}
	out["user"] = s.userActions()
	if cfg.CLI {
		for _, def := range s.W.EDS {
			def := def
			for _, cmd := range cliCommands {
				cmd := cmd
				out["cli"] = append(out["cli"], Action{A: "start", K: "cli:" + cmd + " " + def.Key(), Do: func() {
					s.StartCLI(cmd, types.NamespacedName{Namespace: def.NS, Name: def.Name})
				}})
			}
		}
	}
	for _, d := range s.advanceCandidates() {
		d := d
		out["adv"] = append(out["adv"], Action{A: "adv", K: d.String(), Do: func() { s.Advance(d) }})
	}
	if cfg.PCrash > 0 {
		out["crash"] = []Action{{A: "crash", K: "", Do: func() { s.Crash() }}}
	}
	return out
}

var classOrder = []string{"grant", "startq", "start", "kubelet", "kfault", "gc", "admin", "user", "cli", "adv", "crash"}

func (s *Sim) classWeight(cls string) float64 {
	cfg := &s.W.Cfg
	switch cls {
	case "grant":
		return 10
	case "startq":
		return 6
	case "start":
		return 1.2
	case "kubelet":
		return 4
	case "kfault":
		return 0.8
	case "gc":
		return 0.5
	case "admin":
		return 0.5
	case "user":
		return 0.6
	case "cli":
		return 0.35
	case "adv":
		if cfg.Stall || len(s.inflight) == 0 {
			return 2.5
		}
		return 0
	case "crash":
		return cfg.PCrash * 10
	}
	return 0
}

func (s *Sim) findPending(k string) *Call {
	for _, c := range s.canonicalPending() {
		if c.Task.Ctrl+" "+c.Desc() == k {
			return c
		}
	}
	return nil
}

func (s *Sim) apply(a *Action, fault string) {
	if a.A == "grant" {
		c := s.findPending(a.K)
		if c == nil {
			return
		}
		if s.batchMode {
			s.grantBatch(c, fault)
			return
		}
		switch fault {
		case "crash-before":
			s.Crash()
		case "crash-after":
			s.grant(c, "")
			s.Crash()
		default:
			s.grant(c, fault)
		}
		return
	}
	if a.A == "env" {
		s.Stats.Env[strings.SplitN(a.K, " ", 2)[0]]++
		s.logf("env %s", a.K)
	}
	a.Do()
}

func (s *Sim) drawFault(k string) string {
	cfg := &s.W.Cfg
	if cfg.PLost == 0 && cfg.PReject == 0 {
		return ""
	}
	r := s.rngFault.Float64()
	isRead := strings.Contains(k, " get ") || strings.Contains(k, " list ")
	if !isRead && r < cfg.PLost {
		return "lost"
	}
	if r < cfg.PLost+cfg.PReject {
		return "reject"
	}
	return ""
}

// Chaos runs the seeded (or replayed) decision loop.
func (s *Sim) Chaos() {
	s.phase = "chaos"
	steps := s.W.Cfg.ChaosSteps
	if s.replaying {
		// this phase's decisions: up to the next phase marker
		steps = 0
		for s.rpos+steps < len(s.replay) && s.replay[s.rpos+steps].A != "phase-end" {
			steps++
		}
	}
	base := s.rpos
	for i := 0; i < steps; i++ {
		synctest.Wait()
		s.collectFinished()
		s.step++
		s.Stats.Steps++
		en := s.enabled()
		var act *Action
		fault := ""
		if s.replaying {
			d := s.replay[base+i]
			for _, cls := range classOrder {
				for j := range en[cls] {
					if en[cls][j].A == d.A && en[cls][j].K == d.K {
						act = &en[cls][j]
					}
				}
			}
			if act == nil && d.A == "adv" {
				if dur, err := time.ParseDuration(d.K); err == nil && (s.W.Cfg.Stall || len(s.inflight) == 0) {
					act = &Action{A: "adv", K: d.K, Do: func() { s.Advance(dur) }}
				}
			}
			if act == nil {
				continue
			}
			fault = d.F
		} else {
			var total float64
			for _, cls := range classOrder {
				if len(en[cls]) > 0 {
					total += s.classWeight(cls)
				}
			}
			if total == 0 {
				break
			}
			x := s.rngSched.Float64() * total
			for _, cls := range classOrder {
				if len(en[cls]) == 0 {
					continue
				}
				w := s.classWeight(cls)
				if x < w {
					act = &en[cls][s.rngSched.IntN(len(en[cls]))]
					break
				}
				x -= w
			}
			if act == nil {
				continue
			}
			if act.A == "grant" {
				fault = s.drawFault(act.K)
				if s.W.Cfg.TargetRollback && fault == "" && strings.HasPrefix(act.K, "eds update") && s.rngFault.Float64() < 0.35 {
					fault = pick(s.rngFault, "reject", "lost", "crash-before", "crash-after")
					s.Probe("c07.targeted-" + fault)
				}
				if tc := s.W.Cfg.TargetCall; tc != "" && fault == "" && strings.Contains(act.K, tc) && s.rngFault.Float64() < 0.3 {
					fault = "reject"
					s.Probe("targeted-reject:" + tc)
				}
			}
		}
		s.record(act, fault)
		s.apply(act, fault)
		s.noteState()
	}
	if s.replaying {
		s.rpos = base + steps
		if s.rpos < len(s.replay) && s.replay[s.rpos].A == "phase-end" {
			s.rpos++
		}
	} else {
		s.Trace = append(s.Trace, Decision{A: "phase-end"})
	}
	// everything after the decision loop must not depend on how many draws the loop made
	// (a replay makes none): fresh sub-streams
	s.chaosCount++
	s.rngSched = subRng(s.Seed, fmt.Sprintf("after-chaos-%d", s.chaosCount))
	s.rngFault = subRng(s.Seed, fmt.Sprintf("after-chaos-fault-%d", s.chaosCount))
	s.Drain()
}

// advanceCandidates: small steps plus the interesting instants computable from the store.
func (s *Sim) advanceCandidates() []time.Duration {
	now := s.Now()
	set := map[time.Duration]bool{time.Second: true, 3 * time.Second: true, 11 * time.Second: true, time.Minute: true}
	addT := func(t time.Time) {
		d := t.Sub(now)
		for _, x := range []time.Duration{d - time.Second, d, d + time.Nanosecond, d + time.Second} {
			if x > 0 && x < 3*time.Hour {
				set[x] = true
			}
		}
	}
	for _, e := range s.Store.EDSs() {
		st := &e.Spec.Strategy
		freq := 10 * time.Second
		if st.ReconcileFrequency != nil {
			freq = st.ReconcileFrequency.Duration
		}
		for _, r := range s.Store.ERSs() {
			if r.Namespace != e.Namespace || r.Labels[edsv1.ExtendedDaemonSetNameLabelKey] != e.Name {
				continue
			}
			if c := st.Canary; c != nil {
				if c.Duration != nil {
					addT(r.CreationTimestamp.Add(c.Duration.Duration))
				}
				if rc := ersCond(&r.Status, edsv1.ConditionTypePodRestarting); rc != nil && c.NoRestartsDuration != nil {
					addT(rc.LastUpdateTime.Add(c.NoRestartsDuration.Duration))
				}
				if cc := ersCond(&r.Status, edsv1.ConditionTypeCanary); cc != nil && c.AutoFail != nil && c.AutoFail.CanaryTimeout != nil {
					addT(cc.LastTransitionTime.Add(c.AutoFail.CanaryTimeout.Duration))
				}
			}
			if fc := ersCond(&r.Status, edsv1.ConditionTypeCanaryFailed); fc != nil && fc.Status == corev1.ConditionTrue {
				addT(fc.LastTransitionTime.Add(2 * time.Minute))
			}
			if lc := ersCond(&r.Status, edsv1.ConditionTypeLastFullSync); lc != nil {
				addT(lc.LastUpdateTime.Add(freq))
			}
			if ac := ersCond(&r.Status, edsv1.ConditionTypeActive); ac != nil && ac.Status == corev1.ConditionTrue && st.RollingUpdate.SlowStartIntervalDuration != nil && st.RollingUpdate.SlowStartIntervalDuration.Duration > 0 {
				iv := st.RollingUpdate.SlowStartIntervalDuration.Duration
				k := now.Sub(ac.LastTransitionTime.Time)/iv + 1
				addT(ac.LastTransitionTime.Add(time.Duration(k) * iv))
			}
		}
	}
	var out []time.Duration
	for d := range set {
		out = append(out, d)
	}
	sort.Slice(out, func(i, j int) bool { return out[i] < out[j] })
	return out
}

// ---------------------------------------------------------------------------------------
// setup and quiesce

// Setup loads the world into the store.
func (s *Sim) Setup() {
	s.phase = "setup"
	for _, n := range s.W.Nodes {
		if _, err := s.Store.CreateObj(n.Object()); err != nil {
			panic(err)
		}
	}
	for _, e := range s.W.EDS {
		obj := e.Object()
		if l := s.W.Extra["staleHash"]; l != "" {
			// a manifest exported from a replica set or PodTemplate: the ExtendedDaemonSet's own
			// metadata carries a (stale) template-hash annotation
			h := "0123456789abcdef0123456789abcdef"
			if t := e.Templates[l]; t != nil {
				spec := t.Spec()
				h, _ = comparison.GenerateMD5PodTemplateSpec(&spec)
			}
			obj.Annotations[edsv1.MD5ExtendedDaemonSetAnnotationKey] = h
		}
		if n := s.W.Extra["templateName"]; n != "" {
			obj.Spec.Template.Name = n // cleared by the defaulting
		}
		if _, err := s.Store.CreateObj(obj); err != nil {
			panic(err)
		}
	}
	for _, e := range s.W.EDS {
		if e.OldDS == "" {
			continue
		}
		// a migration from a DaemonSet: its pods run on some nodes; with Foreign, unrelated pods
		// carry overlapping labels (same selector, other owner or none; names sorting before
		// and after the DaemonSet's pods)
		s.ensureLegacyDS(e)
		for i, n := range s.Store.Nodes() {
			if i%2 == 0 {
				s.injectLegacyPod(e, n, PodState{Kind: "ready"})
			}
			if s.W.Foreign {
				// a DaemonSet of the same name in another namespace, with its own pods
				s.injectForeignPod("other-ns", e.OldDS+"-x-"+n.Name, n.Name, map[string]string{"app": "legacy"}, e.OldDS)
				s.injectForeignPod(e.NS, "aaa-other-"+n.Name, n.Name, map[string]string{"app": "legacy"}, "other-ds")
				s.injectForeignPod(e.NS, "zzz-bare-"+n.Name, n.Name, map[string]string{"app": "legacy"}, "")
				if i%3 == 1 {
					// owned by an object of another kind that happens to have the old DaemonSet's name
					s.injectForeignPod(e.NS, "sts-"+n.Name, n.Name, map[string]string{"app": "legacy"}, "StatefulSet/"+e.OldDS)
				}
			}
		}
	}
	if s.W.Foreign {
		for _, e := range s.W.EDS {
			// a pod in another namespace that carries this ExtendedDaemonSet's name label
			if nodes := s.Store.Nodes(); len(nodes) > 0 {
				s.injectForeignPod("other-ns", "lookalike-"+e.Name, nodes[0].Name, map[string]string{edsv1.ExtendedDaemonSetNameLabelKey: e.Name}, "")
			}
		}
	}
	for _, sd := range s.W.Settings {
		if sd.AgeSec >= 0 {
			o := sd.Object()
			o.CreationTimestamp.Time = s.Store.Now().Add(-time.Duration(sd.AgeSec) * time.Second)
			if sd.Terminating {
				dt := metav1.NewTime(s.Store.Now())
				o.DeletionTimestamp = &dt
				o.Finalizers = []string{"example.com/hold"}
			}
			s.Store.Inject(o)
			s.literalQuantities(sd)
		}
	}
}

// literalQuantities: the stored setting keeps the author's spelling of its quantities.
func (s *Sim) literalQuantities(sd *SettingDef) {
	if sd.Container == "" || sd.Cpu == "" {
		return
	}
	s.Store.RewriteRaw(objKey{KSetting, sd.NS, sd.Name}, func(m jmap) {
		spec, _ := m["spec"].(jmap)
		cs, _ := spec["containers"].([]interface{})
		if len(cs) == 0 {
			return
		}
		c0, _ := cs[0].(jmap)
		res, _ := c0["resources"].(jmap)
		req, _ := res["requests"].(jmap)
		if req != nil {
			req["cpu"] = sd.Cpu
		}
	})
}

func (s *Sim) shuffled(keys []objKey, r *rand.Rand) []objKey {
	out := append([]objKey(nil), keys...)
	r.Shuffle(len(out), func(i, j int) { out[i], out[j] = out[j], out[i] })
	return out
}

func (s *Sim) maxFrequency() time.Duration {
	f := 10 * time.Second
	for _, e := range s.Store.EDSs() {
		if e.Spec.Strategy.ReconcileFrequency != nil && e.Spec.Strategy.ReconcileFrequency.Duration > f {
			f = e.Spec.Strategy.ReconcileFrequency.Duration
		}
	}
	return f
}

// Round: one fair round of the quiesce phase. Returns the number of pod creates/deletes.
func (s *Sim) Round(r *rand.Rand) int {
	before := s.podOps
	s.gcOwners()
	s.gcPods()
	s.settleAll()
	s.Advance(s.maxFrequency() + time.Second)
	type req struct {
		ctrl string
		k    objKey
	}
	var reqs []req
	for _, ctrl := range ctrlNames {
		for _, k := range s.startTargets(ctrl) {
			reqs = append(reqs, req{ctrl, k})
		}
	}
	r.Shuffle(len(reqs), func(i, j int) { reqs[i], reqs[j] = reqs[j], reqs[i] })
	for _, q := range reqs {
		if _, ok := s.Store.Raw(q.k); !ok {
			continue
		}
		s.RunTask(q.ctrl, types.NamespacedName{Namespace: q.k.NS, Name: q.k.Name})
		if r.IntN(2) == 0 {
			s.settleAll()
		}
	}
	s.settleAll()
	return s.podOps - before
}

// Quiesce: faults and user actions stop; fair rounds until the bound.
func (s *Sim) Quiesce() {
	s.phase = "quiesce"
	s.Drain()
	r := subRng(s.Seed, "quiesce")
	s.rngSched = r
	rounds := s.W.Cfg.QuiesceRounds
	if s.W.Cfg.SaneOnly {
		s.clearHolds(r)
	}
	if nr := s.W.Extra["neverReady"]; nr != "" {
		// the premise of convergence is that the pods of the live template become Ready: the user
		// moves on from the broken template, and a canary of a good one is validated, not failed
		for _, def := range s.W.EDS {
			if e := s.Store.GetEDS(def.NS, def.Name); e != nil && letterOfTpl(&e.Spec.Template) == nr {
				for _, l := range sortedKeys(def.Templates) {
					if l != nr {
						s.userSetTemplate(def.NS, def.Name, l)
						break
					}
				}
			}
		}
		if s.W.Cfg.EndCanary == "fail" {
			s.W.Cfg.EndCanary = "validate"
		}
	}
	for i := 1; i <= rounds; i++ {
		s.step++
		if s.W.Cfg.EndCanary != "" {
			s.endCanaries(i)
		}
		if s.QuiesceHook != nil {
			s.QuiesceHook(i)
		}
		s.Round(r)
		for _, m := range s.Monitors {
			m.RoundEnd(s, i)
		}
		s.noteState()
		if s.stopQuiesce {
			break
		}
	}
	for _, m := range s.Monitors {
		m.Quiesced(s)
	}
}

func (s *Sim) String() string { return fmt.Sprintf("sim(seed=%d)", s.Seed) }

// clearHolds: the user lifts every pause/freeze before the quiesce phase (C02's premise).
func (s *Sim) clearHolds(r *rand.Rand) {
	for _, e := range s.Store.EDSs() {
		for _, k := range []string{edsv1.ExtendedDaemonSetRollingUpdatePausedAnnotationKey, edsv1.ExtendedDaemonSetRolloutFrozenAnnotationKey, edsv1.ExtendedDaemonSetCanaryPausedAnnotationKey} {
			if _, ok := e.Annotations[k]; ok {
				if r.IntN(2) == 0 {
					s.userAnnotate(e.Namespace, e.Name, k, "false")
				} else {
					s.userAnnotate(e.Namespace, e.Name, k, "-")
				}
			}
		}
	}
}

// endCanaries ends a canary that is still in progress in one of the legal ways.
func (s *Sim) endCanaries(round int) {
	mode := s.W.Cfg.EndCanary
	for _, e := range s.Store.EDSs() {
		if e.Spec.Strategy.Canary == nil {
			continue
		}
		if l, _ := s.liveLetter(e); l != "" {
			continue
		}
		if e.Status.Canary == nil || round > 4 {
			// the canary cannot start (e.g. not enough valid nodes) or did not end: the user
			// validates the replica set of spec.template by annotation, the documented
			// manual override
			if round >= 2 && mode != "hold" {
				for _, r := range s.Store.ERSs() {
					if r.Namespace == e.Namespace && ownerUID(&r.ObjectMeta, "ExtendedDaemonSet") == string(e.UID) && letterOfTpl(&r.Spec.Template) == letterOfTpl(&e.Spec.Template) {
						s.userAnnotate(e.Namespace, e.Name, edsv1.ExtendedDaemonSetCanaryValidAnnotationKey, r.Name)
					}
				}
			}
			continue
		}
		key := types.NamespacedName{Namespace: e.Namespace, Name: e.Name}
		can := e.Spec.Strategy.Canary
		switch {
		case mode == "hold":
		case mode == "fail":
			if cr := s.Store.GetERS(e.Namespace, e.Status.Canary.ReplicaSet); cr != nil && s.inflight[CtrlERS] == nil && hash64(fmt.Sprint(s.Seed), "midsync", fmt.Sprint(round))%2 == 0 {
				// the command lands between the reads and the status write of a sync of the canary replica set
				s.StartReconcile(CtrlERS, types.NamespacedName{Namespace: cr.Namespace, Name: cr.Name})
				for i := 0; i < 2+int(hash64(fmt.Sprint(s.Seed), "midsync-n")%4); i++ {
					synctest.Wait()
					p := s.canonicalPending()
					if len(p) == 0 {
						break
					}
					s.grant(p[0], "")
				}
				s.StartCLI("canary-fail", key)
				s.Drain()
			} else {
				s.RunCLI("canary-fail", key)
			}
		case mode == "wait" && can.Duration != nil && round <= 3:
			d := can.Duration.Duration
			if can.NoRestartsDuration != nil && can.NoRestartsDuration.Duration > d {
				d = can.NoRestartsDuration.Duration
			}
			s.Advance(d + 2*time.Second)
		default:
			s.RunCLI("canary-validate", key)
		}
	}
}

// grantBatch (C17): all parked calls of the task are executed and then released together,
// so that the goroutines of a parallel batch really run concurrently under the race
// detector. Which of them fail is decided from the PRNG by call identity.
func (s *Sim) grantBatch(c *Call, fault string) {
	var batch []*Call
	for _, p := range s.canonicalPending() {
		if p.Task == c.Task {
			batch = append(batch, p)
		}
	}
	if len(batch) <= 1 {
		s.grant(c, fault)
		return
	}
	s.Stats.NonVacuous["C17.batch"]++
	s.Probe(fmt.Sprintf("c17.batch>=%d", pow2floor(len(batch))))
	mode := s.W.Extra["batchFail"] // none, some, all, first-batch
	if mode == "first-batch" {
		// every call of the first parallel batch a task releases fails, none of its later ones: code
		// that sends its requests in several waves must keep the errors of an earlier wave
		mode = "none"
		if !c.Task.batchSeen {
			mode = "all"
		}
	}
	c.Task.batchSeen = true
	var replies []chan struct{}
	for _, b := range batch {
		f := ""
		switch mode {
		case "all":
			f = "reject"
		case "some":
			if hash64(fmt.Sprint(s.Seed), b.Desc())%3 == 0 {
				f = pick(s.rngFault, "reject", "reject", "lost")
			}
		}
		ch := make(chan struct{})
		orig := b.replyCh()
		b.setReply(ch) // grant closes the substitute; the real one is closed below
		s.grant(b, f)
		replies = append(replies, orig)
	}
	for _, ch := range replies {
		close(ch)
	}
}

func pow2floor(n int) int {
	p := 1
	for p*2 <= n {
		p *= 2
	}
	return p
}
