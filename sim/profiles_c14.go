package sim

// C14 (state-injection half): the status function over combinations of replica-set statuses,
// roles, conditions and annotation settings.

import (
	corev1 "k8s.io/api/core/v1"
	metav1 "k8s.io/apimachinery/pkg/apis/meta/v1"
	"encoding/json"
	"fmt"
	"math/rand/v2"
	"time"

	"k8s.io/apimachinery/pkg/types"

	edsv1 "github.com/DataDog/extendeddaemonset/api/v1alpha1"
)

type c14RS struct {
	Desired, Current, Ready, Available int32
	Paused, Failed                     string // "", "True", "False"
	PausedReason, FailedReason         string
}

type c14Case struct {
	Third  bool              `json:"third"`  // an older replica set (template C) exists beside active and canary
	Canary bool              `json:"canary"` // a canary is in progress when the statuses are injected
	RS     map[string]c14RS  `json:"rs"`     // by template letter
	Ann    map[string]string `json:"ann,omitempty"`
	Syncs  int               `json:"syncs"`
	Held   string            `json:"held,omitempty"` // letter of a replica set that is Terminating, held by a finalizer
	Flip   string            `json:"flip,omitempty"` // the pause reason of the canary replica set changes to this before a last reconcile
	EDSHeld bool             `json:"edsHeld,omitempty"` // the ExtendedDaemonSet itself is being deleted and held by a finalizer: its status is still maintained
}

var c14Reasons = []string{"CrashLoopBackOff", "ImagePullBackOff", "ErrImagePull", "CreateContainerConfigError", "StartSlow", "Unknown", ""}

func genC14Inject(r *rand.Rand, tier string, idx int) *World {
	if idx%16 == 6 {
		return genC14Paused(r)
	}
	w := &World{DefaultValidationMode: pick(r, edsv1.ExtendedDaemonSetSpecStrategyCanaryValidationModeAuto, edsv1.ExtendedDaemonSetSpecStrategyCanaryValidationModeAuto, edsv1.ExtendedDaemonSetSpecStrategyCanaryValidationModeManual), Extra: map[string]string{"body": "c14inject"}}
	n := 2 + r.IntN(3)
	for i := 0; i < n; i++ {
		w.Nodes = append(w.Nodes, &NodeDef{Name: nodeName(i)})
	}
	e := &EDSDef{NS: "ns1", Name: "foo", Initial: "A", Templates: map[string]*TemplateDef{"A": {Letter: "A"}, "B": {Letter: "B"}, "C": {Letter: "C"}}}
	cs := c14Case{Third: chance(r, 0.4), Canary: chance(r, 0.8), RS: map[string]c14RS{}, Ann: map[string]string{}, Syncs: 1 + r.IntN(2)}
	e.Strategy = StrategyDef{ReconcileFrequency: "10s", SlowStartInterval: "10s"}
	if cs.Canary || cs.Third {
		e.Strategy.Canary = &CanaryDef{Replicas: pick(r, "1", "2"), Duration: "30m"}
	}
	w.EDS = []*EDSDef{e}
	for _, l := range []string{"A", "B", "C"} {
		d := int32(r.IntN(n + 1))
		rs := c14RS{Desired: d}
		rs.Current = int32(r.IntN(int(d) + 1))
		rs.Ready = int32(r.IntN(int(rs.Current) + 1))
		rs.Available = int32(r.IntN(int(rs.Ready) + 1))
		if l == "B" {
			rs.Paused = pick(r, "", "", "True", "True", "False")
			rs.PausedReason = pick(r, c14Reasons...)
			rs.Failed = pick(r, "", "", "", "True", "False")
			rs.FailedReason = pick(r, c14Reasons...)
		}
		cs.RS[l] = rs
	}
	pre := "extendeddaemonset.datadoghq.com/"
	if chance(r, 0.5) {
		cs.Ann[pre+"canary-paused"] = pick(r, "true", "true", "false")
	}
	if chance(r, 0.3) {
		cs.Ann[pre+"canary-paused-reason"] = pick(r, c14Reasons[:6]...)
	}
	if chance(r, 0.2) {
		cs.Ann[pre+"canary-unpaused"] = pick(r, "true", "false")
	}
	if chance(r, 0.15) {
		cs.Ann[pre+"rolling-update-paused"] = pick(r, "true", "false")
	}
	if chance(r, 0.15) {
		cs.Ann[pre+"rollout-frozen"] = pick(r, "true", "false")
	}
	if chance(r, 0.25) {
		cs.Held = pick(r, "A", "B", "C")
	}
	cs.EDSHeld = chance(r, 0.1)
	if cs.RS["B"].Paused == "True" && chance(r, 0.5) {
		cs.Flip = pick(r, c14Reasons[:6]...)
	}
	b, _ := json.Marshal(cs)
	w.Extra["case"] = string(b)
	w.Cfg = Config{Kubelet: true, MapOrder: pick(r, 0, 1, 2)}
	return w
}

func bodyC14Inject(s *Sim) {
	s.Setup()
	def := s.W.EDS[0]
	key := types.NamespacedName{Namespace: def.NS, Name: def.Name}
	var cs c14Case
	_ = json.Unmarshal([]byte(s.W.Extra["case"]), &cs)
	s.bootstrap(def)
	if cs.Third {
		// C is canaried first and abandoned for B
		s.userSetTemplate(def.NS, def.Name, "C")
		s.RunTask(CtrlEDS, key)
	}
	if cs.Canary {
		s.userSetTemplate(def.NS, def.Name, "B")
		s.RunTask(CtrlEDS, key)
		s.RunTask(CtrlEDS, key)
	}
	now := s.Now()
	for _, l := range []string{"A", "B", "C"} {
		r := s.ersByLetter(def, l)
		if r == nil {
			continue
		}
		c := cs.RS[l]
		r.Status.Desired, r.Status.Current, r.Status.Ready, r.Status.Available = c.Desired, c.Current, c.Ready, c.Available
		if c.Paused != "" {
			cd := edsv1ERSCond(string(edsv1.ConditionTypeCanaryPaused), c.Paused, now.Add(-30*time.Second), now.Add(-30*time.Second))
			cd.Reason = c.PausedReason
			r.Status.Conditions = append(r.Status.Conditions, cd)
		}
		if c.Failed != "" {
			cd := edsv1ERSCond(string(edsv1.ConditionTypeCanaryFailed), c.Failed, now.Add(-20*time.Second), now.Add(-20*time.Second))
			cd.Reason = c.FailedReason
			r.Status.Conditions = append(r.Status.Conditions, cd)
		}
		if l == cs.Held {
			dt := metav1.NewTime(now)
			r.DeletionTimestamp = &dt
			r.Finalizers = append(r.Finalizers, "example.com/hold")
		}
		s.Store.ForceUpdate(r)
	}
	for _, k := range sortedKeys(cs.Ann) {
		s.userAnnotate(def.NS, def.Name, k, cs.Ann[k])
	}
	if cs.EDSHeld {
		if e := s.Store.GetEDS(def.NS, def.Name); e != nil {
			dt := metav1.NewTime(now)
			e.DeletionTimestamp = &dt
			e.Finalizers = append(e.Finalizers, "example.com/hold")
			s.Store.ForceUpdate(e)
			s.Stats.NonVacuous["C14.terminating-eds"]++
		}
	}
	s.phase = "body"
	for i := 0; i < cs.Syncs; i++ {
		s.RunTask(CtrlEDS, key)
		s.Advance(time.Second)
	}
	if cs.Flip != "" {
		// the canary stays paused, for another reason (the kubelet backs off, a second pod fails differently)
		if r := s.ersByLetter(def, "B"); r != nil {
			for i := range r.Status.Conditions {
				if c := &r.Status.Conditions[i]; c.Type == edsv1.ConditionTypeCanaryPaused && c.Status == corev1.ConditionTrue {
					c.Reason = cs.Flip
					c.LastUpdateTime = metav1.NewTime(s.Now())
				}
			}
			s.Store.ForceUpdate(r)
			s.Stats.NonVacuous["C14.pause-reason-changed"]++
			s.RunTask(CtrlEDS, key)
		}
	}
}

// ---------------------------------------------------------------------------------------
// C14, quiescent clause while a canary is held: the whole system runs, the canary is paused before its
// replica set has taken its nodes over (together with the template change, right after the first
// reconcile, or before the canary is widened), nothing moves any more, and the status must still count
// the daemon pods that exist.

func genC14Paused(r *rand.Rand) *World {
	w := &World{DefaultValidationMode: "manual", Extra: map[string]string{"body": "c14paused"}}
	n := 3 + r.IntN(3)
	for i := 0; i < n; i++ {
		w.Nodes = append(w.Nodes, &NodeDef{Name: nodeName(i)})
	}
	e := &EDSDef{NS: "ns1", Name: "foo", Initial: "A", Templates: map[string]*TemplateDef{"A": {Letter: "A"}, "B": {Letter: "B"}}}
	e.Strategy = StrategyDef{ReconcileFrequency: "10s", SlowStartInterval: "10s", SlowStartIncrease: "5", MaxUnavailable: "2",
		Canary: &CanaryDef{Replicas: pick(r, "1", "2"), ValidationMode: "manual"}}
	w.EDS = []*EDSDef{e}
	w.Extra["pauseWhen"] = pick(r, "with", "after-eds", "later")
	w.Extra["widen"] = pick(r, "0", "1")
	w.Cfg = Config{Kubelet: true, MapOrder: pick(r, 0, 1, 2)}
	return w
}

func bodyC14Paused(s *Sim) {
	s.Setup()
	def := s.W.EDS[0]
	key := types.NamespacedName{Namespace: def.NS, Name: def.Name}
	r := subRng(s.Seed, "c14paused")
	for i := 0; i < 6; i++ {
		s.Round(r)
	}
	s.phase = "body"
	pause := func() {
		s.userAnnotate(def.NS, def.Name, edsv1.ExtendedDaemonSetCanaryPausedAnnotationKey, "true")
	}
	if s.W.Extra["pauseWhen"] == "with" {
		pause()
	}
	s.userSetTemplate(def.NS, def.Name, "B")
	s.RunTask(CtrlEDS, key)
	s.RunTask(CtrlEDS, key)
	if s.W.Extra["pauseWhen"] == "after-eds" {
		pause()
	}
	for i := 0; i < 4; i++ {
		s.Round(r)
	}
	if s.W.Extra["pauseWhen"] == "later" {
		pause()
		s.Round(r)
	}
	if s.W.Extra["widen"] == "1" {
		// the paused canary is widened by one node: that node still runs a pod of the active template
		if e := s.Store.GetEDS(def.NS, def.Name); e != nil && e.Spec.Strategy.Canary != nil && e.Spec.Strategy.Canary.Replicas != nil {
			v := intOrStr(fmt.Sprint(e.Spec.Strategy.Canary.Replicas.IntValue() + 1))
			e.Spec.Strategy.Canary.Replicas = v
			s.Store.ForceUpdate(e)
			s.logf("env user.widen-canary")
		}
	}
	quiet := 0
	for i := 0; i < 14 && quiet < 3; i++ {
		if s.Round(r) == 0 {
			quiet++
		} else {
			quiet = 0
		}
	}
	e := s.Store.GetEDS(def.NS, def.Name)
	if e == nil || quiet < 3 || e.Status.Canary == nil || !annTrue(e.Annotations, edsv1.ExtendedDaemonSetCanaryPausedAnnotationKey) {
		return
	}
	exist, ready := 0, 0
	for _, p := range s.Store.Pods() {
		if !isDaemonPod(p, def.NS, def.Name) {
			continue
		}
		if terminating(p) {
			return // not quiescent
		}
		exist++
		if podReady(p) && p.Status.Phase == corev1.PodRunning {
			ready++
		}
	}
	s.Stats.NonVacuous["C14.quiescent-paused-canary"]++
	if st := e.Status; int(st.Current) != exist || int(st.Ready) != ready || int(st.Available) != ready {
		s.Violate("C14", "quiescent", "paused-canary", "%s: canary paused and nothing moves any more (3 rounds without a pod operation): %d daemon pods exist, %d are Ready, but status current=%d ready=%d available=%d (canary nodes %v)", def.Key(), exist, ready, st.Current, st.Ready, st.Available, st.Canary.Nodes)
	}
}
