package sim

import (
	"crypto/sha256"
	"encoding/hex"
	"encoding/json"
	"fmt"
	"math/rand/v2"
	"os"
	"runtime/debug"
	"sort"
	"strings"
	"testing"
	"testing/synctest"
	"time"
)

// Profile: how a property's runs are generated and executed.
type Profile struct {
	Name   string
	Decide []string // properties whose violations this check reports
	// Gen draws the world of run idx.
	Gen func(r *rand.Rand, tier string, idx int) *World
	// Body runs the simulation (default: Setup, Chaos, Quiesce).
	Body func(s *Sim)
	// NonVacuous names the stat keys that make a run count as non-trivial.
	NonVacuous []string
	// Runs per tier
	Quick, Thorough int
	Rule            string // how cases are generated (evidence)
	Level           string // exploration (default) or fault_enumeration
	Chunk           int    // runs per worker invocation (default 50)
	Exhaustive      bool
	// Multi: one index = several simulated runs (C11's enumeration)
	Multi func(t *testing.T, p *Profile, seed uint64, tier string, idx int, replayDir string) *RunResult
}

var profiles = map[string]*Profile{}

func register(p *Profile) { profiles[p.Name] = p }

type ReplayFile struct {
	Property string      `json:"property"`
	Profile  string      `json:"profile"`
	Seed     uint64      `json:"seed"`     // VERIF_SEED
	Index    int         `json:"index"`    // run index
	RunSeed  uint64      `json:"run_seed"` // derived per-run seed
	Tier     string      `json:"tier"`
	World    *World      `json:"world"`
	Trace    []Decision  `json:"trace"`
	UseTrace bool        `json:"use_trace"`
	Violation *Violation `json:"violation,omitempty"`
	Minimised bool       `json:"minimised"`
	OrigTraceLen int     `json:"orig_trace_len,omitempty"`
}

type RunResult struct {
	Index      int            `json:"i"`
	RunSeed    uint64         `json:"seed"`
	Violations []Violation    `json:"violations,omitempty"`
	Steps      int            `json:"steps"`
	Calls      int            `json:"calls"`
	Tasks      map[string]int `json:"tasks"`
	Faults     map[string]int `json:"faults,omitempty"`
	Probes     map[string]int `json:"probes,omitempty"`
	Env        map[string]int `json:"env,omitempty"`
	NonVac     map[string]int `json:"nonvac,omitempty"`
	SimSec     float64        `json:"simsec"`
	States     int            `json:"states"`
	StateHashes []uint64      `json:"statehashes,omitempty"`
	Overlaps   int            `json:"overlaps"`
	Interleave uint64         `json:"interleave"`
	Conflicts  int            `json:"conflicts"`
	Sig        string         `json:"sig"`  // hash of world + abstract state sequence
	LogHash    string         `json:"loghash,omitempty"`
	EngineErr  string         `json:"engine_err,omitempty"`
	TraceLen   int            `json:"tracelen"`
	WallMs     float64        `json:"wall_ms"`
	sim        *Sim
}

func mixSeed(seed uint64, profile string, idx int) uint64 {
	return hash64(fmt.Sprint(seed), profile, fmt.Sprint(idx)) | 1
}

// RunOne executes one run inside its own bubble.
func RunOne(t *testing.T, p *Profile, runSeed uint64, w *World, replay []Decision, useTrace bool, wantLog bool) *RunResult {
	res := &RunResult{RunSeed: runSeed}
	t0 := time.Now()
	orig := w
	w = cloneWorld(w) // bodies may adjust the configuration between phases; the caller's copy is what a replay file records
	func() {
		defer func() {
			// a hung reconcile leaves goroutines blocked for good: the bubble ends with a deadlock panic,
			// which is the expected end of such a run (the violation has been recorded)
			if r := recover(); r != nil && (res.sim == nil || !res.sim.hung) {
				panic(r)
			}
		}()
		runBubble(t, p, runSeed, w, replay, useTrace, wantLog, res)
	}()
	s := res.sim
	res.Violations = s.Violations
	res.Steps = s.Stats.Steps
	res.Calls = s.Stats.Calls
	res.Tasks = s.Stats.Tasks
	res.Faults = s.Stats.Faults
	res.Probes = s.Stats.Probes
	res.Env = s.Stats.Env
	res.NonVac = s.Stats.NonVacuous
	res.SimSec = s.Stats.SimTime.Seconds()
	res.States = len(s.Stats.States)
	res.Overlaps = s.Stats.Overlaps
	res.Interleave = s.Stats.Interleave
	res.Conflicts = s.Stats.Conflicts
	res.TraceLen = len(s.Trace)
	for h := range s.Stats.States {
		res.StateHashes = append(res.StateHashes, h)
	}
	sort.Slice(res.StateHashes, func(i, j int) bool { return res.StateHashes[i] < res.StateHashes[j] })
	if len(res.StateHashes) > 64 {
		res.StateHashes = res.StateHashes[:64]
	}
	h := sha256.New()
	h.Write(orig.JSON())
	for _, x := range res.StateHashes {
		fmt.Fprintf(h, "%x,", x)
	}
	fmt.Fprintf(h, "|%x|%d", s.Stats.Interleave, s.Stats.Calls)
	res.Sig = hex.EncodeToString(h.Sum(nil))[:16]
	if s.logOn {
		lh := sha256.Sum256([]byte(strings.Join(s.Log, "\n")))
		res.LogHash = hex.EncodeToString(lh[:])[:16]
	}
	res.WallMs = float64(time.Since(t0).Microseconds()) / 1000
	return res
}

func runBubble(t *testing.T, p *Profile, runSeed uint64, w *World, replay []Decision, useTrace bool, wantLog bool, res *RunResult) {
	synctest.Test(t, func(t *testing.T) {
		s := NewSim(runSeed, w)
		s.logOn = wantLog || os.Getenv("VERIF_LOG") != ""
		res.sim = s
		defer func() {
			if r := recover(); r != nil {
				if !s.hung {
					res.EngineErr = fmt.Sprintf("%v\n%s", r, debug.Stack())
				}
				// let every parked goroutine go so the bubble can end
				s.abort()
			}
		}()
		s.init()
		s.Monitors = allMonitors()
		if useTrace {
			s.replaying = true
			s.replay = replay
		}
		if p.Body != nil {
			p.Body(s)
		} else {
			s.Setup()
			s.Chaos()
			if !w.Cfg.NoQuiesce {
				s.Quiesce()
			}
		}
		s.Drain()
	})
}

// abort releases everything after an engine failure.
func (s *Sim) abort() {
	for i := 0; i < 1000; i++ {
		for _, t := range s.tasks {
			t.Crashed = true
		}
		for _, cl := range s.clients {
			cl.dead.Store(true)
		}
		s.mu.Lock()
		p := s.pending
		s.pending = nil
		s.mu.Unlock()
		if len(p) == 0 {
			synctest.Wait()
			s.mu.Lock()
			n := len(s.pending)
			s.mu.Unlock()
			if n == 0 {
				return
			}
			continue
		}
		for _, c := range p {
			c.Err = errCrashed
			close(c.reply)
		}
	}
}

func decides(p *Profile, v Violation) bool {
	for _, d := range p.Decide {
		if d == v.Prop {
			return true
		}
	}
	return false
}

func writeJSON(path string, v interface{}) error {
	b, err := json.MarshalIndent(v, "", " ")
	if err != nil {
		return err
	}
	return os.WriteFile(path, b, 0o644)
}
