package sim

// SyncView: the read view and the write set of one task, decoded once for all monitors.

import (
	apierrors "k8s.io/apimachinery/pkg/api/errors"
	"encoding/json"

	corev1 "k8s.io/api/core/v1"

	edsv1 "github.com/DataDog/extendeddaemonset/api/v1alpha1"
)

type SyncView struct {
	Task *Task
	EDS  *edsv1.ExtendedDaemonSet
	ERS  *edsv1.ExtendedDaemonSetReplicaSet // ers sync: the replica set read

	NodesRead    bool
	Nodes        map[string]*corev1.Node
	NodeList     []*corev1.Node
	PodsRead     bool
	Blind        bool // nodes, pods or settings substituted from the store (see View)
	SettingsRead bool
	Pods         []*corev1.Pod // union of the pod lists read, unique by ns/name
	Settings     []*edsv1.ExtendedDaemonsetSetting
	ERSRead      bool
	ERSList      []*edsv1.ExtendedDaemonSetReplicaSet

	PodCreates   []*Call
	PodDeletes   []*Call
	PodPatches   []*Call
	ERSCreates   []*Call
	ERSDeletes   []*Call
	StatusWrites []*Call // updatestatus of EDS/ERS/Setting
	SpecWrites   []*Call // update of EDS
	Others       []*Call // any other write
}

func (t *Task) View() *SyncView {
	if t.view != nil && t.Done {
		return t.view
	}
	v := &SyncView{Task: t, Nodes: map[string]*corev1.Node{}}
	seenPod := map[string]bool{}
	for _, c := range t.Calls {
		switch c.Verb {
		case "get":
			if c.Err != nil {
				continue
			}
			switch c.Kind {
			case KEDS:
				if v.EDS == nil {
					v.EDS = &edsv1.ExtendedDaemonSet{}
					_ = json.Unmarshal(c.Out, v.EDS)
				}
			case KERS:
				if v.ERS == nil {
					v.ERS = &edsv1.ExtendedDaemonSetReplicaSet{}
					_ = json.Unmarshal(c.Out, v.ERS)
				}
			}
		case "list":
			if c.Err != nil {
				continue
			}
			switch c.Kind {
			case KNode:
				if !v.NodesRead {
					v.NodesRead = true
					for _, b := range c.OutList {
						n := &corev1.Node{}
						_ = json.Unmarshal(b, n)
						v.Nodes[n.Name] = n
						v.NodeList = append(v.NodeList, n)
					}
				}
			case KPod:
				v.PodsRead = true
				for _, b := range c.OutList {
					p := &corev1.Pod{}
					_ = json.Unmarshal(b, p)
					k := p.Namespace + "/" + p.Name
					if !seenPod[k] {
						seenPod[k] = true
						v.Pods = append(v.Pods, p)
					}
				}
			case KSetting:
				v.SettingsRead = true
				for _, b := range c.OutList {
					o := &edsv1.ExtendedDaemonsetSetting{}
					_ = json.Unmarshal(b, o)
					v.Settings = append(v.Settings, o)
				}
			case KERS:
				if !v.ERSRead {
					v.ERSRead = true
					for _, b := range c.OutList {
						o := &edsv1.ExtendedDaemonSetReplicaSet{}
						_ = json.Unmarshal(b, o)
						v.ERSList = append(v.ERSList, o)
					}
				}
			}
		default:
			switch {
			case c.Kind == KPod && c.Verb == "create":
				v.PodCreates = append(v.PodCreates, c)
			case c.Kind == KPod && c.Verb == "delete":
				v.PodDeletes = append(v.PodDeletes, c)
			case c.Kind == KPod && c.Verb == "patch":
				v.PodPatches = append(v.PodPatches, c)
			case c.Kind == KERS && c.Verb == "create":
				v.ERSCreates = append(v.ERSCreates, c)
			case c.Kind == KERS && c.Verb == "delete":
				v.ERSDeletes = append(v.ERSDeletes, c)
			case c.Verb == "updatestatus" || c.Verb == "patchstatus":
				v.StatusWrites = append(v.StatusWrites, c)
			case c.Kind == KEDS && c.Verb == "update":
				v.SpecWrites = append(v.SpecWrites, c)
			default:
				v.Others = append(v.Others, c)
			}
		}
	}
	// A replica-set sync that creates or deletes pods without having read the nodes or the pods
	// (the list failed and the code went on) is judged against what exists: correct code never
	// gets here, so the substitution cannot raise an alarm on it.
	if t.Ctrl == CtrlERS && len(v.PodCreates)+len(v.PodDeletes) > 0 && !v.SettingsRead && t.client != nil && !t.client.direct {
		v.Blind = true
		v.SettingsRead = true
		for _, o := range t.client.sim.Store.Settings() {
			v.Settings = append(v.Settings, o)
		}
	}
	readFailed := false
	for _, c := range t.Calls {
		if (c.Verb == "get" || c.Verb == "list") && c.Err != nil && !apierrors.IsNotFound(c.Err) {
			readFailed = true
		}
	}
	if t.Ctrl == CtrlERS && len(v.PodCreates)+len(v.PodDeletes) > 0 && readFailed && v.PodsRead && t.client != nil && !t.client.direct {
		// one of several pod reads failed (e.g. the pods of the old DaemonSet): the others are not the whole picture
		v.PodsRead = false
		v.Blind = true
	}
	if t.Ctrl == CtrlERS && len(v.PodCreates)+len(v.PodDeletes) > 0 && (!v.NodesRead || !v.PodsRead) && t.client != nil && !t.client.direct {
		st := t.client.sim.Store
		v.Blind = true
		if !v.NodesRead {
			v.NodesRead = true
			for _, n := range st.Nodes() {
				v.Nodes[n.Name] = n
				v.NodeList = append(v.NodeList, n)
			}
		}
		if !v.PodsRead {
			v.PodsRead = true
			for _, c := range v.PodDeletes {
				if p := podOfCall(c); p != nil && !seenPod[p.Namespace+"/"+p.Name] {
					seenPod[p.Namespace+"/"+p.Name] = true
					v.Pods = append(v.Pods, p)
				}
			}
			for _, c := range v.PodCreates {
				// what the sync itself created is not part of what it could have read
				if c.Out != nil {
					if p := podOfCall(c); p != nil {
						seenPod[p.Namespace+"/"+p.Name] = true
					}
				}
			}
			for _, p := range st.Pods() {
				if !seenPod[p.Namespace+"/"+p.Name] {
					seenPod[p.Namespace+"/"+p.Name] = true
					v.Pods = append(v.Pods, p)
				}
			}
		}
	}
	if t.Done {
		t.view = v
	}
	return v
}

// Full: an ERS sync that got past the reconcile-frequency gate.
func (v *SyncView) Full() bool { return v.Task.Ctrl == CtrlERS && v.NodesRead && v.PodsRead }

// Role of the replica set in the EDS status this sync read.
func (v *SyncView) Role() string {
	if v.EDS == nil || v.ERS == nil {
		return ""
	}
	st := &v.EDS.Status
	switch {
	case st.ActiveReplicaSet == "":
		return "other"
	case st.ActiveReplicaSet == v.ERS.Name:
		return "active"
	case st.Canary != nil && st.Canary.ReplicaSet == v.ERS.Name:
		return "canary"
	}
	return "other"
}

func (v *SyncView) CanaryNodes() map[string]bool {
	out := map[string]bool{}
	if v.EDS != nil && v.EDS.Status.Canary != nil {
		for _, n := range v.EDS.Status.Canary.Nodes {
			out[n] = true
		}
	}
	return out
}

// DaemonPods: the pods of the read view that belong to the EDS (§4).
func (v *SyncView) DaemonPods() []*corev1.Pod {
	if v.EDS == nil {
		return nil
	}
	old := v.EDS.Annotations[edsv1.ExtendedDaemonSetOldDaemonsetAnnotationKey]
	var out []*corev1.Pod
	for _, p := range v.Pods {
		if isDaemonPod(p, v.EDS.Namespace, v.EDS.Name) || (old != "" && p.Namespace == v.EDS.Namespace && ownedByDS(p, old)) {
			out = append(out, p)
		}
	}
	return out
}

func podOfCall(c *Call) *corev1.Pod {
	p := &corev1.Pod{}
	switch {
	case c.Verb == "create" && c.Out != nil:
		_ = json.Unmarshal(c.Out, p)
	case c.Verb == "create":
		b, _ := json.Marshal(c.Obj)
		_ = json.Unmarshal(b, p)
	case c.Pre != nil:
		_ = json.Unmarshal(c.Pre, p)
	default:
		return nil
	}
	return p
}

func reqPod(c *Call) *corev1.Pod {
	p := &corev1.Pod{}
	b, _ := json.Marshal(c.Obj)
	_ = json.Unmarshal(b, p)
	return p
}
