package sim

// C02 — bounded convergence; C14 (quiescent part) — status equals what exists.

import (
	"fmt"

	corev1 "k8s.io/api/core/v1"

	edsv1 "github.com/DataDog/extendeddaemonset/api/v1alpha1"
)

type monC02 struct {
	baseMon
	convergedAt int
	quietSince  int
	lastReason  string
	lastBusy    int // last round in which a canary was still in progress / environment acted
	neverReadyLive bool // in the last round the live (or active) template was the one whose pods never become Ready
	done        bool
}

func (*monC02) Name() string { return "C02" }

// prop: the convergence machinery also decides the liveness halves of C07, C10, C12 and C19.
func (m *monC02) prop(s *Sim) string {
	if p := s.W.Extra["c02prop"]; p != "" {
		return p
	}
	return "C02"
}

// sig: the context signature of a convergence failure (identifies listed findings).
func (m *monC02) sig(s *Sim) string {
	if s.W.Extra["c10"] == "1" {
		return s.c10ChurnSig()
	}
	return ""
}

// liveLetter: spec.template once it is the active replica set's template.
func (s *Sim) liveLetter(e *edsv1.ExtendedDaemonSet) (string, string) {
	l := letterOfTpl(&e.Spec.Template)
	act := s.Store.GetERS(e.Namespace, e.Status.ActiveReplicaSet)
	if act == nil {
		return "", "no active replica set yet"
	}
	if letterOfTpl(&act.Spec.Template) != l {
		return "", fmt.Sprintf("template %s not promoted (active %s, canary=%v, state=%s)", l, letterOfTpl(&act.Spec.Template), e.Status.Canary != nil, e.Status.State)
	}
	if e.Status.Canary != nil {
		return "", "status.canary still set"
	}
	return l, ""
}

// convergedEDS checks the C02 target state for one EDS.
func (s *Sim) convergedEDS(def *EDSDef) (bool, string, int) {
	e := s.Store.GetEDS(def.NS, def.Name)
	if e == nil {
		return true, "", 0
	}
	l, why := s.liveLetter(e)
	if l == "" {
		return false, why, 0
	}
	tdef := def.Templates[l]
	if tdef == nil {
		return false, "unknown template " + l, 0
	}
	byNode := map[string][]*corev1.Pod{}
	for _, p := range s.Store.Pods() {
		if isDaemonPod(p, def.NS, def.Name) || (def.OldDS != "" && p.Namespace == def.NS && ownedByDS(p, def.OldDS)) {
			byNode[podNode(p)] = append(byNode[podNode(p)], p)
		}
	}
	nElig := 0
	nodes := map[string]bool{}
	for _, n := range s.Store.Nodes() {
		nodes[n.Name] = true
		pods := byNode[n.Name]
		if !eligible(n, tdef) {
			if len(pods) > 0 {
				return false, fmt.Sprintf("ineligible node %s still has pod %s", n.Name, pods[0].Name), 0
			}
			continue
		}
		nElig++
		if len(pods) != 1 {
			return false, fmt.Sprintf("eligible node %s has %d daemon pods", n.Name, len(pods)), 0
		}
		p := pods[0]
		if letterOfPod(p) != l {
			return false, fmt.Sprintf("node %s runs template %s, live is %s", n.Name, letterOfPod(p), l), 0
		}
		if terminating(p) || !podReady(p) || p.Status.Phase != corev1.PodRunning {
			return false, fmt.Sprintf("pod %s on %s not Ready (phase %s, terminating %v)", p.Name, n.Name, p.Status.Phase, terminating(p)), 0
		}
		if s.W.Extra["c10"] == "1" {
			if why := s.c10Stale(def, &e.Spec.Template, n, p); why != "" {
				return false, why, 0
			}
		}
	}
	for _, node := range sortedKeys(byNode) {
		pods := byNode[node]
		if !nodes[node] {
			return false, fmt.Sprintf("pod %s pinned to vanished node %q", pods[0].Name, node), 0
		}
	}
	return true, "", nElig
}

func (s *Sim) canaryBusy() bool {
	for _, e := range s.Store.EDSs() {
		if e.Spec.Strategy.Canary == nil {
			continue
		}
		if l, _ := s.liveLetter(e); l == "" {
			return true
		}
	}
	return false
}

// Bound: rounds allowed after the last disturbance (DESIGN C02; loose, frozen).
func (s *Sim) c02Bound() int {
	return 10 + 6*len(s.Store.Nodes())
}

func (m *monC02) RoundEnd(s *Sim, round int) {
	if s.W.Extra["c02"] != "1" || m.done {
		return
	}
	if s.canaryBusy() {
		m.lastBusy = round
	}
	m.neverReadyLive = false
	if nr := s.W.Extra["neverReady"]; nr != "" {
		// premise of the property: created pods become Ready. When the live template is (again) the one
		// whose pods never do - e.g. a failed canary rolled back to it - the bound does not run
		for _, def := range s.W.EDS {
			if e := s.Store.GetEDS(def.NS, def.Name); e != nil {
				if act := s.Store.GetERS(e.Namespace, e.Status.ActiveReplicaSet); letterOfTpl(&e.Spec.Template) == nr || (act != nil && letterOfTpl(&act.Spec.Template) == nr) {
					m.lastBusy = round
					m.neverReadyLive = true
					s.Probe("c02.live-template-never-ready")
				}
			}
		}
	}
	all := true
	for _, def := range s.W.EDS {
		ok, why, _ := s.convergedEDS(def)
		if !ok {
			all = false
			m.lastReason = def.Key() + ": " + why
		}
	}
	ops := s.podOps - s.lastRoundOps
	s.lastRoundOps = s.podOps
	if !all {
		m.convergedAt = 0
		if round-m.lastBusy > s.c02Bound() {
			s.Violate(m.prop(s), "liveness", m.sig(s), "not converged %d rounds after the canary ended (bound %d): %s", round-m.lastBusy, s.c02Bound(), m.lastReason)
			m.done = true
			s.stopQuiesce = true
		}
		return
	}
	if m.convergedAt == 0 {
		m.convergedAt = round
		s.Stats.NonVacuous[m.prop(s)+".converged"]++
		s.Probe(fmt.Sprintf("c02.rounds<=%d", ((round-m.lastBusy)/5+1)*5))
		return
	}
	if ops != 0 {
		s.Violate(m.prop(s), "fixpoint", m.sig(s), "round %d after convergence still issued %d pod creates/deletes", round, ops)
	}
	if round >= m.convergedAt+2 {
		m.checkStatus(s)
		m.done = true
		s.stopQuiesce = true
	}
}

// C14 at quiescence.
func (m *monC02) checkStatus(s *Sim) {
	for _, def := range s.W.EDS {
		e := s.Store.GetEDS(def.NS, def.Name)
		if e == nil {
			continue
		}
		ok, _, n := s.convergedEDS(def)
		if !ok {
			continue
		}
		s.Stats.NonVacuous["C14.quiescent"]++
		st := e.Status
		if int(st.Desired) != n || int(st.Current) != n || int(st.Ready) != n || int(st.Available) != n || int(st.UpToDate) != n {
			s.Violate("C14", "quiescent", "", "%s: %d eligible nodes each with one Ready live pod, but status desired=%d current=%d ready=%d available=%d upToDate=%d", def.Key(), n, st.Desired, st.Current, st.Ready, st.Available, st.UpToDate)
		}
	}
}

func (m *monC02) Quiesced(s *Sim) {
	if s.W.Extra["c02"] != "1" || m.done {
		return
	}
	if m.convergedAt == 0 && m.neverReadyLive {
		// the live template was, at the end, the one whose pods never become Ready: the premise of the
		// property does not hold, nothing to conclude from this run
		s.Probe("c02.premise-broken-at-the-end")
		return
	}
	if m.convergedAt == 0 {
		s.Violate(m.prop(s), "liveness", m.sig(s), "not converged after %d quiesce rounds (last canary activity in round %d, bound %d): %s", s.W.Cfg.QuiesceRounds, m.lastBusy, s.c02Bound(), m.lastReason)
	}
}
