package sim

// C11 — fault enumeration: every API-call index of a scripted scenario × every fault kind.

import (
	"crypto/sha256"
	"encoding/hex"
	"os"
	"encoding/json"
	"fmt"
	"math/rand/v2"
	"sort"
	"strings"
	"testing"
	"time"

	corev1 "k8s.io/api/core/v1"
	"k8s.io/apimachinery/pkg/types"

	edsv1 "github.com/DataDog/extendeddaemonset/api/v1alpha1"
)

var c11Scenarios = []string{"first-deploy", "rolling-update", "canary-time", "canary-validate", "canary-fail", "canary-fail-late", "canary-strategy-removed", "canary-hold", "node-churn", "setting-change", "migration"}

const c11Slices = 6

func genC11World(r *rand.Rand, scenario string) *World {
	w := &World{DefaultValidationMode: "auto", Extra: map[string]string{"scenario": scenario, "c02": "1", "c02prop": "C11"}}
	w.AffinityMode = chance(r, 0.5)
	n := 2 + r.IntN(3)
	for i := 0; i < n; i++ {
		nd := &NodeDef{Name: nodeName(i), Labels: map[string]string{"zone": pick(r, "a", "b")}}
		w.Nodes = append(w.Nodes, nd)
	}
	w.SpareNodes = []*NodeDef{{Name: nodeName(n), Labels: map[string]string{"zone": "a"}}}
	e := &EDSDef{NS: "ns1", Name: "foo", Initial: "A", Templates: map[string]*TemplateDef{"A": {Letter: "A"}, "B": {Letter: "B"}}}
	e.Strategy = StrategyDef{MaxUnavailable: pick(r, "1", "2"), SlowStartIncrease: pick(r, "1", "2", "100%"), SlowStartInterval: "10s", ReconcileFrequency: "10s"}
	switch scenario {
	case "canary-time":
		e.Strategy.Canary = &CanaryDef{Replicas: "1", Duration: "2m", NoRestartsDuration: "1m"}
	case "canary-validate":
		// "100%": the canary already runs everywhere, so the promotion changes nothing but the roles
		// and the status is final after its first write
		e.Strategy.Canary = &CanaryDef{Replicas: pick(r, "1", "2", "100%", "100%"), ValidationMode: "manual"}
	case "canary-fail":
		e.Strategy.Canary = &CanaryDef{Replicas: "1", Duration: "30m"}
		// a broken release: the canary pods never become Ready, the rollback replaces unavailable pods
		w.Extra["neverReady"] = "B"
	case "canary-hold":
		// a canary that starts and then waits for its manual validation; the daemon pod of the first
		// node has restarted, so that node is not the one a failure-free run picks
		e.Strategy.Canary = &CanaryDef{Replicas: "1", ValidationMode: "manual"}
	case "canary-strategy-removed":
		// a paused canary whose strategy the user then removes from the spec: the canary is over,
		// its block and its pause annotations go, the new template is rolled out
		e.Strategy.Canary = &CanaryDef{Replicas: "1", Duration: "30m"}
	case "canary-fail-late":
		// as canary-fail, but the controller that takes over after the fault does so only after
		// the canary duration has elapsed
		e.Strategy.Canary = &CanaryDef{Replicas: "1", Duration: "2m", NoRestartsDuration: "1m"}
	case "setting-change":
		w.Settings = []*SettingDef{{NS: "ns1", Name: "set0", Ref: "foo", Selector: map[string]string{"zone": "a"}, Container: "main", Cpu: "500m", AgeSec: 10},
			// a second setting that selects the same nodes, created by the user during the scenario: being
			// the newer one it wins the conflict, whatever happened before
			{NS: "ns1", Name: "set1", Ref: "foo", Selector: map[string]string{"zone": "a"}, Container: "main", Cpu: "700m", AgeSec: -1}}
		w.Extra["c10"] = "1"
	case "migration":
		// first deployment that adopts the pods of an old DaemonSet; unrelated pods with the same
		// labels and a same-named DaemonSet in another namespace exist
		e.OldDS = "legacy"
		w.Foreign = true
	}
	w.EDS = []*EDSDef{e}
	w.Cfg = Config{Kubelet: true, QuiesceRounds: 10 + 6*(n+1) + 8, MapOrder: pick(r, 0, 1)}
	return w
}

// until runs fair rounds until cond holds (barrier synchronisation of the script).
func (s *Sim) until(r *rand.Rand, max int, cond func() bool) bool {
	for i := 0; i < max; i++ {
		if cond() {
			return true
		}
		s.step++
		s.Round(r)
		if s.lateFrom > 0 && s.faultsFired > s.lateSeen {
			s.lateSeen = s.faultsFired
			if s.ctrlCalls > s.lateFrom {
				s.logf("c11 late recovery: 3m pass before the next reconcile")
				s.Advance(3 * time.Minute)
			}
		}
	}
	return cond()
}

func (s *Sim) allConverged() bool {
	for _, def := range s.W.EDS {
		if ok, _, _ := s.convergedEDS(def); !ok {
			return false
		}
	}
	return true
}

func bodyC11(s *Sim) {
	s.Setup()
	def := s.W.EDS[0]
	key := types.NamespacedName{Namespace: def.NS, Name: def.Name}
	r := subRng(s.Seed, "c11rounds")
	s.rngSched = subRng(s.Seed, "c11sched")
	if k := s.W.Extra["faultAt"]; k != "" {
		fmt.Sscan(k, &s.faultAt)
		s.faultKind = s.W.Extra["faultKind"]
		if k2 := s.W.Extra["faultAt2"]; k2 != "" {
			fmt.Sscan(k2, &s.faultAt2)
			s.faultKind2 = s.W.Extra["faultKind2"]
		}
	}
	s.countCalls = true
	max := s.W.Cfg.QuiesceRounds
	scen := s.W.Extra["scenario"]
	if scen != "first-deploy" && scen != "migration" {
		s.countCalls = scen == "never"
		s.until(r, max, s.allConverged)
		s.countCalls = true
	}
	canaryRunning := func() bool {
		e := s.Store.GetEDS(def.NS, def.Name)
		if e == nil || e.Status.Canary == nil || len(e.Status.Canary.Nodes) == 0 {
			return false
		}
		for _, n := range e.Status.Canary.Nodes {
			ok := false
			for _, p := range s.Store.Pods() {
				if podNode(p) == n && letterOfPod(p) == "B" && (podReady(p) || (s.W.Extra["neverReady"] == "B" && p.Status.Phase == corev1.PodRunning)) {
					ok = true
				}
			}
			if !ok {
				return false
			}
		}
		return true
	}
	conv := s.allConverged
	if scen == "canary-hold" {
		// converged = the canary runs on its nodes and every other node keeps a Ready pod of the active template
		conv = func() bool {
			e := s.Store.GetEDS(def.NS, def.Name)
			if !canaryRunning() || e == nil || e.Status.State != edsv1.ExtendedDaemonSetStatusStateCanary {
				return false
			}
			cn := map[string]bool{}
			for _, n := range e.Status.Canary.Nodes {
				cn[n] = true
			}
			for _, n := range s.Store.Nodes() {
				ok := cn[n.Name]
				for _, p := range s.Store.Pods() {
					if podNode(p) == n.Name && letterOfPod(p) == "A" && podReady(p) && !terminating(p) {
						ok = true
					}
				}
				if !ok {
					return false
				}
			}
			return true
		}
		if nodes := s.Store.Nodes(); len(nodes) > 0 {
			for _, p := range s.Store.Pods() {
				if podNode(p) == nodes[0].Name && isDaemonPod(p, def.NS, def.Name) {
					s.kRestart(p, "Error")
					if pp := s.Store.GetPod(p.Namespace, p.Name); pp != nil {
						s.kSettle(pp)
					}
				}
			}
		}
	}
	switch scen {
	case "first-deploy", "migration":
	case "canary-hold":
		s.userSetTemplate(def.NS, def.Name, "B")
	case "rolling-update":
		s.userSetTemplate(def.NS, def.Name, "B")
	case "canary-time":
		s.userSetTemplate(def.NS, def.Name, "B")
		s.until(r, max, canaryRunning)
		s.Advance(3 * time.Minute)
	case "canary-validate":
		s.userSetTemplate(def.NS, def.Name, "B")
		s.until(r, max, canaryRunning)
		s.countCalls = false
		// paused and unpaused before it is validated: the annotations the promotion has to clear
		s.RunCLI("canary-pause", key)
		s.Round(r)
		s.RunCLI("canary-unpause", key)
		s.Round(r)
		s.RunCLI("canary-validate", key)
		s.countCalls = true
	case "canary-fail", "canary-fail-late":
		s.userSetTemplate(def.NS, def.Name, "B")
		s.until(r, max, canaryRunning)
		s.countCalls = false
		s.RunCLI("canary-fail", key)
		s.countCalls = true
		if scen == "canary-fail-late" {
			s.lateFrom = s.ctrlCalls + 1
		}
	case "canary-strategy-removed":
		s.userSetTemplate(def.NS, def.Name, "B")
		s.until(r, max, canaryRunning)
		s.countCalls = false
		s.RunCLI("canary-pause", key)
		s.Round(r)
		s.Round(r)
		if e := s.Store.GetEDS(def.NS, def.Name); e != nil {
			e.Spec.Strategy.Canary = nil
			s.Store.ForceUpdate(e)
			s.logf("user removes the canary strategy")
		}
		s.countCalls = true
	case "node-churn":
		s.Store.Remove(objKey{KNode, "", s.W.Nodes[0].Name})
		_, _ = s.Store.CreateObj(s.W.SpareNodes[0].Object())
	case "setting-change":
		for _, st := range s.Store.Settings() {
			if st.Name != s.W.Settings[0].Name {
				continue
			}
			d := *s.W.Settings[0]
			d.Cpu = "600m"
			st.Spec = d.Object().Spec
			s.Store.ForceUpdate(st)
		}
		if _, has := s.Store.Raw(objKey{KSetting, s.W.Settings[1].NS, s.W.Settings[1].Name}); len(s.W.Settings) > 1 && !has {
			_, _ = s.Store.CreateObj(s.W.Settings[1].Object())
			s.logf("user creates setting %s", s.W.Settings[1].Name)
		}
	}
	s.until(r, max, func() bool { return conv() && s.faultsDone() })
	s.countCalls = false
	// failure-free reconciliation to quiescence
	s.until(r, 6, func() bool { return false })
	s.until(r, max, conv)
	// time-based clean-up (retention of a failed replica set) must be over in both runs
	s.Advance(3 * time.Minute)
	for i := 0; i < 3; i++ {
		s.step++
		s.Round(r)
	}
	if !conv() {
		_, why, _ := s.convergedEDS(def)
		s.Violate("C11", "convergence", "", "scenario %s with fault %s@%d: not converged after the fault stopped: %s", scen, s.faultKind, s.faultAt, why)
	}
	s.finalState = s.abstractFinal()
	if want := s.W.Extra["expectFinal"]; want != "" && want != s.finalState {
		s.Violate("C11", "final-state", "", "scenario %s with fault %s at call %d: final state differs from the failure-free run\n got: %s\nwant: %s", scen, s.faultKind, s.faultAt, s.finalState, want)
	}
}

func (s *Sim) faultsDone() bool {
	return (s.faultAt == 0 || s.ctrlCalls >= s.faultAt) && (s.faultAt2 == 0 || s.ctrlCalls >= s.faultAt2)
}

// abstractFinal: per node template letter and readiness of its pods; EDS active letter,
// canary block, state, counters; replica sets by letter.
func (s *Sim) abstractFinal() string {
	var parts []string
	byNode := map[string][]string{}
	for _, p := range s.Store.Pods() {
		lbl := ""
		if _, has := p.Labels[canaryLabel]; has {
			lbl = "/canary-label"
		}
		byNode[podNode(p)] = append(byNode[podNode(p)], fmt.Sprintf("%s/%v/%s%s", letterOfPod(p), podReady(p), resOf(p), lbl))
	}
	for _, n := range s.Store.Nodes() {
		ps := byNode[n.Name]
		sort.Strings(ps)
		parts = append(parts, n.Name+"="+strings.Join(ps, "+"))
	}
	for _, e := range s.Store.EDSs() {
		act := s.Store.GetERS(e.Namespace, e.Status.ActiveReplicaSet)
		al := "-"
		if act != nil {
			al = letterOfTpl(&act.Spec.Template)
		}
		var anns []string
		for _, k := range sortedKeys(e.Annotations) {
			if strings.HasPrefix(k, "extendeddaemonset.datadoghq.com/canary-") {
				anns = append(anns, shortAnn(k)+"="+e.Annotations[k])
			}
		}
		if e.Status.Canary != nil {
			anns = append(anns, fmt.Sprintf("canary-nodes=%v", e.Status.Canary.Nodes))
		}
		parts = append(parts, fmt.Sprintf("eds:%s spec=%s active=%s canary=%v state=%s d%d c%d r%d a%d u%d ann=%v", e.Name, letterOfTpl(&e.Spec.Template), al, e.Status.Canary != nil, e.Status.State, e.Status.Desired, e.Status.Current, e.Status.Ready, e.Status.Available, e.Status.UpToDate, anns))
	}
	for _, st := range s.Store.Settings() {
		parts = append(parts, fmt.Sprintf("setting:%s=%s", st.Name, st.Status.Status))
	}
	var ls []string
	for _, r := range s.Store.ERSs() {
		ls = append(ls, letterOfTpl(&r.Spec.Template))
	}
	sort.Strings(ls)
	parts = append(parts, "ers:"+strings.Join(ls, ","))
	return strings.Join(parts, " | ")
}

func resOf(p *corev1.Pod) string {
	if len(p.Spec.Containers) == 0 {
		return ""
	}
	q := p.Spec.Containers[0].Resources.Requests[corev1.ResourceCPU]
	return q.String()
}

var c11Safety = map[string]bool{"C01": true, "C03": true, "C04": true, "C05": true, "C12": true}

// multiC11 runs the baseline of a unit and then its slice of the (call index × fault kind) space.
func multiC11(t *testing.T, p *Profile, seed uint64, tier string, idx int, replayDir string) *RunResult {
	unit, slice := idx/c11Slices, idx%c11Slices
	scen := c11Scenarios[unit%len(c11Scenarios)]
	variant := unit / len(c11Scenarios)
	rs := mixSeed(seed, "C11/"+scen, variant)
	mk := func() *World {
		w := genC11World(subRng(rs, "world"), scen)
		w.Profile = "C11"
		return w
	}
	base := RunOne(t, p, rs, mk(), nil, false, false)
	agg := base
	agg.Index = idx
	if base.EngineErr != "" {
		return agg
	}
	K := base.sim.ctrlCallsCounted
	kinds := base.sim.callKinds // per counted call: true = write
	want := base.sim.finalState
	baseViol := map[string]bool{}
	for _, v := range base.Violations {
		baseViol[v.Prop+"/"+v.Monitor+"/"+v.Sig] = true
	}
	agg.NonVac = map[string]int{"C11.baseline": 1}
	digest := sha256.New()
	fmt.Fprintf(digest, "base:%s|%d\n", want, K)
	agg.Probes = map[string]int{"c11.calls:" + scen: K}
	var out []Violation
	seen := map[string]bool{}
	runFault := func(k int, kind string, k2 int, kind2 string) {
		w := mk()
		w.Extra["faultAt"], w.Extra["faultKind"] = fmt.Sprint(k), kind
		if k2 > 0 {
			w.Extra["faultAt2"], w.Extra["faultKind2"] = fmt.Sprint(k2), kind2
		}
		w.Extra["expectFinal"] = want
		res := RunOne(t, p, rs, w, nil, false, false)
		agg.NonVac["C11.faulted-run"]++
		agg.Faults[kind]++
		agg.Calls += res.Calls
		agg.SimSec += res.SimSec
		agg.Steps += res.Steps
		fmt.Fprintf(digest, "%d/%s/%d/%d:%s|%d|%.0f|%d\n", k, kind, k2, res.sim.faultsFired, res.sim.finalState, res.Calls, res.SimSec, len(res.Violations))
		if res.EngineErr != "" {
			agg.EngineErr = res.EngineErr
			return
		}
		if res.sim.faultsFired == 0 {
			agg.Probes["c11.fault-not-reached"]++
		}
		if os.Getenv("VERIF_LOG") == "2" {
			fmt.Printf("C11RUN %s k=%d %s fired=%d final=%s\n", scen, k, kind, res.sim.faultsFired, res.sim.finalState)
		}
		for _, v := range res.Violations {
			key := v.Prop + "/" + v.Monitor + "/" + v.Sig
			var nv Violation
			switch {
			case v.Prop == "C11":
				nv = v
			case c11Safety[v.Prop] && !baseViol[key]:
				nv = Violation{Prop: "C11", Monitor: "safety", Sig: key, Msg: fmt.Sprintf("scenario %s, fault %s at call %d: %s", scen, kind, k, v.Msg), Step: v.Step}
			default:
				continue
			}
			if seen[nv.Monitor+nv.Sig] {
				continue
			}
			seen[nv.Monitor+nv.Sig] = true
			out = append(out, nv)
			if replayDir != "" {
				rf := &ReplayFile{Property: "C11", Profile: "C11", Seed: seed, Index: idx, RunSeed: rs, Tier: tier, World: w, UseTrace: false, Violation: &nv}
				_ = writeJSON(fmt.Sprintf("%s/C11-C11-%d-%d-%d.json", replayDir, seed, idx, len(out)-1), rf)
			}
		}
	}
	n := 0
	for k := 1; k <= K; k++ {
		ks := []string{"reject"}
		if kinds[k-1] {
			ks = []string{"reject", "lost", "crash-before", "crash-after"}
		}
		for _, kind := range ks {
			if n%c11Slices == slice {
				runFault(k, kind, 0, "")
			}
			n++
		}
	}
	if tier == "thorough" {
		// pairs of faults: sampled from the PRNG (all pairs of a 300-call scenario would be 10^5 runs per unit)
		pr := subRng(rs, fmt.Sprintf("pairs%d", slice))
		for i := 0; i < 40 && K >= 2; i++ {
			k1 := 1 + pr.IntN(K-1)
			k2 := k1 + 1 + pr.IntN(K-k1)
			kk := func(k int) string {
				if kinds[k-1] {
					return pick(pr, "reject", "lost", "crash-before", "crash-after")
				}
				return "reject"
			}
			runFault(k1, kk(k1), k2, kk(k2))
			agg.NonVac["C11.pair"]++
		}
	}
	agg.Violations = out
	agg.Sig = fmt.Sprintf("%s-%d-%d", scen, variant, slice)
	agg.LogHash = hex.EncodeToString(digest.Sum(nil))[:16]
	return agg
}

func init() {
	units := len(c11Scenarios)
	register(&Profile{Name: "C11", Decide: []string{"C11"}, Level: "fault_enumeration", Quick: units * c11Slices, Thorough: units * 6 * c11Slices, Body: bodyC11, Multi: multiC11,
		Gen:        func(r *rand.Rand, tier string, idx int) *World { return genC11World(r, c11Scenarios[0]) },
		NonVacuous: []string{"C11.faulted-run"}, Chunk: 1, Exhaustive: true,
		Rule: "Corpus of 11 scripted, barrier-synchronised scenarios (first deployment, rolling update, canary promoted by time, canary paused, unpaused and validated, canary failed and rolled back, the same with the recovery after a fault delayed past the canary duration, canary strategy removed, canary held, node removal and addition, setting change with a second overlapping setting created meanwhile, migration from an old DaemonSet with foreign look-alike pods), each over 1 (quick) or 6 (thorough) seeds that vary cluster size, configuration, node-assignment mode and schedule. For each (scenario, seed) the failure-free run is recorded; then for EVERY index k of the API calls issued by controller tasks during the scenario and every applicable fault kind (reads: rejected; writes: rejected, applied-but-reply-lost, crash before, crash after with fresh reconcilers) the same seed is re-run with that single fault, continued to quiescence, checked against all safety monitors at every step and compared with the failure-free final state. Thorough adds 40 PRNG-sampled fault pairs per slice. The space (calls x kinds) of each listed scenario/seed is enumerated completely; one evaluation = one slice of a unit."})
}

var _ = json.Marshal

// c11Translate: in a single replayed run, violations of the safety monitors are C11's.
func c11Translate(res *RunResult) {
	for i := range res.Violations {
		v := &res.Violations[i]
		if c11Safety[v.Prop] {
			key := v.Prop + "/" + v.Monitor + "/" + v.Sig
			*v = Violation{Prop: "C11", Monitor: "safety", Sig: key, Msg: v.Msg, Step: v.Step}
		}
	}
}
