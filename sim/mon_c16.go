package sim

// C16 — defaulting is a fixed point and no accepted spec can crash the controller.

import (
	"encoding/json"
	"errors"
	"fmt"
	"regexp"
	"strings"

	apiequality "k8s.io/apimachinery/pkg/api/equality"

	edsv1 "github.com/DataDog/extendeddaemonset/api/v1alpha1"
)

type monC16 struct {
	baseMon
	lastDefaulted map[string][]byte // EDS key -> spec JSON stored by the last defaulting update
}

func (*monC16) Name() string { return "C16" }

var frameRe = regexp.MustCompile(`github.com/DataDog/extendeddaemonset/([^\s(]+)\(`)

func panicSite(stack string) string {
	// first repository frame below the panic
	idx := strings.Index(stack, "panic(")
	if idx < 0 {
		idx = 0
	}
	if m := frameRe.FindStringSubmatch(stack[idx:]); m != nil {
		return m[1]
	}
	return "?"
}

func specOf(b []byte) jmap {
	if b == nil {
		return nil
	}
	m, _ := toMap(b)["spec"].(jmap)
	return m
}

func (m *monC16) TaskEnd(s *Sim, t *Task) {
	if t.Panic != nil {
		s.Violate("C16", "panic", panicSite(t.Stack), "%s panicked: %v", t.Label(), t.Panic)
		return
	}
	if t.Ctrl != CtrlEDS || t.Crashed {
		return
	}
	if m.lastDefaulted == nil {
		m.lastDefaulted = map[string][]byte{}
	}
	v := t.View()
	if v.EDS == nil {
		return
	}
	key := t.Key.String()
	// a defaulting reconcile: get + update, no list
	var def *Call
	if !v.ERSRead && len(v.SpecWrites) == 1 {
		def = v.SpecWrites[0]
	}
	if !v.ERSRead && len(v.SpecWrites) == 0 {
		// the same write spelled as a patch
		for _, c := range v.Others {
			if c.Kind == KEDS && c.Verb == "patch" {
				def = c
			}
		}
	}
	if prev, ok := m.lastDefaulted[key]; ok {
		cur, _ := json.Marshal(v.EDS.Spec)
		if def != nil && string(cur) == string(prev) {
			s.Violate("C16", "defaulting-loop", "", "%s issued a second defaulting update for an object it had already defaulted", t.Label())
		}
		delete(m.lastDefaulted, key)
	}
	if def != nil && def.Applied() && def.Pre != nil {
		s.Stats.NonVacuous["C16.defaulting"]++
		out := &edsv1.ExtendedDaemonSet{}
		written := def.Obj
		if written == nil && def.Out != nil {
			written = toMap(def.Out)
		}
		b, _ := json.Marshal(written)
		_ = json.Unmarshal(b, out)
		if !edsv1.IsDefaultedExtendedDaemonSet(out) {
			s.Violate("C16", "not-recognised", "", "%s: the defaulted object is not recognised as defaulted", t.Label())
		}
		again := edsv1.DefaultExtendedDaemonSet(out, s.W.DefaultValidationMode)
		if !apiequality.Semantic.DeepEqual(out.Spec, again.Spec) {
			s.Violate("C16", "not-idempotent", "", "%s: defaulting the defaulted object changes it", t.Label())
		}
		var diffs []string
		jsonDiff("", specOf(def.Pre), written["spec"], &diffs)
		pre := specOf(def.Pre)
		for _, d := range diffs {
			if d == "/template/metadata/name" {
				continue
			}
			// the path must have been absent before
			var cur interface{} = pre
			absent := false
			for _, part := range strings.Split(strings.TrimPrefix(d, "/"), "/") {
				mm, ok := cur.(jmap)
				if !ok {
					absent = true
					break
				}
				nx, has := mm[part]
				if !has || nx == nil {
					absent = true
					break
				}
				cur = nx
			}
			if !absent {
				s.Violate("C16", "user-value-changed", d, "%s: defaulting changed user-set field %s", t.Label(), d)
			}
		}
		if def.Out != nil {
			o2 := &edsv1.ExtendedDaemonSet{}
			_ = json.Unmarshal(def.Out, o2)
			sp, _ := json.Marshal(o2.Spec)
			m.lastDefaulted[key] = sp
		}
		return
	}
	// validation verdicts on a defaulted object
	if !edsv1.IsDefaultedExtendedDaemonSet(v.EDS) {
		return
	}
	can := v.EDS.Spec.Strategy.Canary
	if can == nil || can.AutoFail == nil || can.AutoPause == nil || can.AutoFail.Enabled == nil || can.AutoPause.Enabled == nil || can.AutoFail.MaxRestarts == nil || can.AutoPause.MaxRestarts == nil {
		return
	}
	var want []error
	if *can.AutoFail.Enabled && *can.AutoPause.Enabled && *can.AutoFail.MaxRestarts < *can.AutoPause.MaxRestarts {
		want = append(want, edsv1.ErrInvalidAutoFailRestarts)
	}
	if *can.AutoFail.Enabled && can.AutoFail.CanaryTimeout != nil && can.Duration != nil && can.AutoFail.CanaryTimeout.Duration <= can.Duration.Duration {
		want = append(want, edsv1.ErrInvalidCanaryTimeout)
	}
	// the mode the controller acts on: the one written in the spec, else the controller-level default
	mode := can.ValidationMode
	if mode == "" {
		mode = s.W.DefaultValidationMode
	}
	if mode == edsv1.ExtendedDaemonSetSpecStrategyCanaryValidationModeManual {
		if can.Duration != nil {
			want = append(want, edsv1.ErrDurationWithManualValidationMode)
		}
		if can.NoRestartsDuration != nil {
			want = append(want, edsv1.ErrNoRestartsDurationWithManualValidationMode)
		}
	}
	writes := 0
	for _, c := range t.Calls {
		if c.IsWrite() {
			writes++
		}
	}
	isValidationErr := func(err error) bool {
		for _, e := range []error{edsv1.ErrInvalidAutoFailRestarts, edsv1.ErrInvalidCanaryTimeout, edsv1.ErrDurationWithManualValidationMode, edsv1.ErrNoRestartsDurationWithManualValidationMode} {
			if errors.Is(err, e) {
				return true
			}
		}
		return false
	}
	if len(want) > 0 {
		s.Stats.NonVacuous["C16.invalid-spec"]++
		ok := false
		for _, e := range want {
			if errors.Is(t.Err, e) {
				ok = true
			}
		}
		if !ok || writes > 0 {
			s.Violate("C16", "validation", "accepted", "%s: spec is invalid (%v) but the reconcile returned %v and issued %d writes", t.Label(), want, t.Err, writes)
		}
	} else if isValidationErr(t.Err) {
		s.Violate("C16", "validation", "rejected", "%s: spec is valid but the reconcile returned %v", t.Label(), t.Err)
	}
}

var _ = fmt.Sprint
