package sim

// Stub fidelity (DESIGN §8.3): seeded operation sequences against simapi and against
// controller-runtime's fake client, restricted to what both implement.

import (
	"context"
	"encoding/json"
	"fmt"
	"math/rand/v2"
	"os"
	"sort"
	"testing"
	"time"

	corev1 "k8s.io/api/core/v1"
	apierrors "k8s.io/apimachinery/pkg/api/errors"
	metav1 "k8s.io/apimachinery/pkg/apis/meta/v1"
	"k8s.io/apimachinery/pkg/labels"
	"sigs.k8s.io/controller-runtime/pkg/client"
	"sigs.k8s.io/controller-runtime/pkg/client/fake"

	edsv1 "github.com/DataDog/extendeddaemonset/api/v1alpha1"
)

func normObj(o client.Object) string {
	b, _ := json.Marshal(o)
	m := toMap(b)
	md := meta(m)
	for _, k := range []string{"resourceVersion", "uid", "creationTimestamp", "generation", "managedFields"} {
		delete(md, k)
	}
	delete(m, "apiVersion")
	delete(m, "kind")
	if st, ok := m["status"].(jmap); ok && len(st) == 0 {
		delete(m, "status")
	}
	return string(fromMap(m))
}

func errClass(err error) string {
	switch {
	case err == nil:
		return "ok"
	case apierrors.IsNotFound(err):
		return "NotFound"
	case apierrors.IsAlreadyExists(err):
		return "AlreadyExists"
	case apierrors.IsConflict(err):
		return "Conflict"
	case apierrors.IsInvalid(err), apierrors.IsBadRequest(err):
		return "Invalid"
	}
	return "other:" + err.Error()
}

func TestStubFidelity(t *testing.T) {
	n := envInt("VERIF_FIDELITY_N", 300)
	ops, mismatches := 0, 0
	for seed := 1; seed <= n; seed++ {
		r := rand.New(rand.NewPCG(uint64(seed), 99))
		s := NewSim(uint64(seed), &World{})
		s.Store = NewStore(func() time.Time { return time.Unix(946684800, 0) })
		a := &ctrlClient{sim: s, direct: true}
		b := fake.NewClientBuilder().WithScheme(theScheme).WithStatusSubresource(&edsv1.ExtendedDaemonSet{}, &edsv1.ExtendedDaemonSetReplicaSet{}, &edsv1.ExtendedDaemonsetSetting{}).Build()
		names := []string{"a", "b", "c"}
		nss := []string{"ns1", "ns2"}
		mk := func(kind int, ns, name string) (client.Object, client.Object) {
			lbl := map[string]string{"app": pick(r, "x", "y"), "k": pick(r, "1", "2")}
			switch kind {
			case 0:
				o := &edsv1.ExtendedDaemonSet{ObjectMeta: metav1.ObjectMeta{Namespace: ns, Name: name, Labels: lbl}}
				o.Spec.Template.Spec.Containers = []corev1.Container{{Name: "main", Image: pick(r, "img:A", "img:B")}}
				return o, o.DeepCopy()
			case 1:
				o := &edsv1.ExtendedDaemonSetReplicaSet{ObjectMeta: metav1.ObjectMeta{Namespace: ns, Name: name, Labels: lbl}}
				o.Spec.TemplateGeneration = pick(r, "h1", "h2")
				return o, o.DeepCopy()
			default:
				o := &corev1.PodTemplate{ObjectMeta: metav1.ObjectMeta{Namespace: ns, Name: name, Labels: lbl}}
				o.Template.Spec.Containers = []corev1.Container{{Name: "main", Image: pick(r, "img:A", "img:B")}}
				return o, o.DeepCopy()
			}
		}
		empty := func(kind int) (client.Object, client.Object) {
			switch kind {
			case 0:
				return &edsv1.ExtendedDaemonSet{}, &edsv1.ExtendedDaemonSet{}
			case 1:
				return &edsv1.ExtendedDaemonSetReplicaSet{}, &edsv1.ExtendedDaemonSetReplicaSet{}
			}
			return &corev1.PodTemplate{}, &corev1.PodTemplate{}
		}
		ctx := context.Background()
		fail := func(op string, f string, args ...interface{}) {
			mismatches++
			if mismatches < 10 {
				t.Errorf("seed %d op %s: %s", seed, op, fmt.Sprintf(f, args...))
			}
		}
		for i := 0; i < 40; i++ {
			ops++
			kind, ns, name := r.IntN(3), pick(r, nss...), pick(r, names...)
			key := client.ObjectKey{Namespace: ns, Name: name}
			switch op := pick(r, "create", "create", "get", "list", "update", "update-stale", "status", "patch", "delete"); op {
			case "create":
				x, y := mk(kind, ns, name)
				e1, e2 := a.Create(ctx, x), b.Create(ctx, y)
				if errClass(e1) != errClass(e2) {
					fail(op, "%v vs %v", e1, e2)
				} else if e1 == nil && normObj(x) != normObj(y) {
					fail(op, "objects differ:\n%s\n%s", normObj(x), normObj(y))
				}
			case "get":
				x, y := empty(kind)
				e1, e2 := a.Get(ctx, key, x), b.Get(ctx, key, y)
				if errClass(e1) != errClass(e2) {
					fail(op, "%v vs %v", e1, e2)
				} else if e1 == nil && normObj(x) != normObj(y) {
					fail(op, "objects differ:\n%s\n%s", normObj(x), normObj(y))
				}
			case "list":
				opts := []client.ListOption{}
				if r.IntN(2) == 0 {
					opts = append(opts, client.InNamespace(ns))
				}
				if r.IntN(2) == 0 {
					opts = append(opts, client.MatchingLabelsSelector{Selector: labels.SelectorFromSet(labels.Set{"app": pick(r, "x", "y")})})
				}
				var l1, l2 []string
				switch kind {
				case 0:
					x, y := &edsv1.ExtendedDaemonSetList{}, &edsv1.ExtendedDaemonSetList{}
					e1, e2 := a.List(ctx, x, opts...), b.List(ctx, y, opts...)
					if errClass(e1) != errClass(e2) {
						fail(op, "%v vs %v", e1, e2)
					}
					for j := range x.Items {
						l1 = append(l1, normObj(&x.Items[j]))
					}
					for j := range y.Items {
						l2 = append(l2, normObj(&y.Items[j]))
					}
				case 1:
					x, y := &edsv1.ExtendedDaemonSetReplicaSetList{}, &edsv1.ExtendedDaemonSetReplicaSetList{}
					_, _ = a.List(ctx, x, opts...), b.List(ctx, y, opts...)
					for j := range x.Items {
						l1 = append(l1, normObj(&x.Items[j]))
					}
					for j := range y.Items {
						l2 = append(l2, normObj(&y.Items[j]))
					}
				default:
					x, y := &corev1.PodTemplateList{}, &corev1.PodTemplateList{}
					_, _ = a.List(ctx, x, opts...), b.List(ctx, y, opts...)
					for j := range x.Items {
						l1 = append(l1, normObj(&x.Items[j]))
					}
					for j := range y.Items {
						l2 = append(l2, normObj(&y.Items[j]))
					}
				}
				sort.Strings(l1)
				sort.Strings(l2)
				if fmt.Sprint(l1) != fmt.Sprint(l2) {
					fail(op, "lists differ: %d vs %d items", len(l1), len(l2))
				}
			case "update", "update-stale", "status", "patch":
				x, y := empty(kind)
				e1, e2 := a.Get(ctx, key, x), b.Get(ctx, key, y)
				if e1 != nil || e2 != nil {
					continue
				}
				if op == "update-stale" {
					// somebody else writes in between
					x2, y2 := empty(kind)
					_ = a.Get(ctx, key, x2)
					_ = b.Get(ctx, key, y2)
					x2.SetAnnotations(map[string]string{"other": "writer"})
					y2.SetAnnotations(map[string]string{"other": "writer"})
					_, _ = a.Update(ctx, x2), b.Update(ctx, y2)
				}
				if op == "patch" {
					ox, oy := x.DeepCopyObject().(client.Object), y.DeepCopyObject().(client.Object)
					v := pick(r, "1", "2", "3")
					x.SetLabels(map[string]string{"app": x.GetLabels()["app"], "patched": v})
					y.SetLabels(map[string]string{"app": y.GetLabels()["app"], "patched": v})
					e1, e2 = a.Patch(ctx, x, client.MergeFrom(ox)), b.Patch(ctx, y, client.MergeFrom(oy))
				} else if op == "status" && kind != 2 {
					switch xo := x.(type) {
					case *edsv1.ExtendedDaemonSet:
						v := int32(r.IntN(5))
						xo.Status.Desired = v
						xo.Spec.Template.Spec.Containers[0].Image = "img:ignored"
						yo := y.(*edsv1.ExtendedDaemonSet)
						yo.Status.Desired = v
						yo.Spec.Template.Spec.Containers[0].Image = "img:ignored"
					case *edsv1.ExtendedDaemonSetReplicaSet:
						v := int32(r.IntN(5))
						xo.Status.Desired = v
						y.(*edsv1.ExtendedDaemonSetReplicaSet).Status.Desired = v
					}
					e1, e2 = a.Status().Update(ctx, x), b.Status().Update(ctx, y)
				} else {
					v := pick(r, "p", "q")
					x.SetAnnotations(map[string]string{"edit": v})
					y.SetAnnotations(map[string]string{"edit": v})
					switch xo := x.(type) {
					case *edsv1.ExtendedDaemonSet:
						xo.Status.Desired = 77 // must be ignored by a main-resource update
						y.(*edsv1.ExtendedDaemonSet).Status.Desired = 77
					}
					e1, e2 = a.Update(ctx, x), b.Update(ctx, y)
				}
				if errClass(e1) != errClass(e2) {
					fail(op, "%v vs %v", e1, e2)
					continue
				}
				gx, gy := empty(kind)
				_ = a.Get(ctx, key, gx)
				_ = b.Get(ctx, key, gy)
				if normObj(gx) != normObj(gy) {
					fail(op, "stored objects differ:\n%s\n%s", normObj(gx), normObj(gy))
				}
			case "delete":
				x, y := mk(kind, ns, name)
				e1, e2 := a.Delete(ctx, x), b.Delete(ctx, y)
				if errClass(e1) != errClass(e2) {
					fail(op, "%v vs %v", e1, e2)
				}
			}
		}
	}
	fmt.Fprintf(os.Stderr, "stub fidelity: %d operations in %d sequences, %d mismatches\n", ops, n, mismatches)
}
