package sim

// C06 — auto-fail and auto-pause fire exactly on their documented triggers.
// Two-sided reference evaluated on every fault-free canary-role sync with at least one
// evaluated canary pod.

import (
	"fmt"
	"encoding/json"
	"time"

	corev1 "k8s.io/api/core/v1"

	edsv1 "github.com/DataDog/extendeddaemonset/api/v1alpha1"
)

type monC06 struct {
	baseMon
	roleSeen    map[string]string    // replica set -> role in its last sync whose status write went through
	canarySince map[string]time.Time // replica set -> start of the sync that began its current stint as canary (only when the change of role was witnessed)
}

func (*monC06) Name() string { return "C06" }

func latestRestart(p *corev1.Pod) time.Time {
	var t time.Time
	for _, cs := range [][]corev1.ContainerStatus{p.Status.ContainerStatuses, p.Status.InitContainerStatuses, p.Status.EphemeralContainerStatuses} {
		for _, c := range cs {
			if c.RestartCount > 0 && c.LastTerminationState.Terminated != nil && c.LastTerminationState.Terminated.FinishedAt.Time.After(t) {
				t = c.LastTerminationState.Terminated.FinishedAt.Time
			}
		}
	}
	return t
}

func (m *monC06) TaskEnd(s *Sim, t *Task) {
	defer m.noteRole(t)
	if t.Ctrl == CtrlERS && t.Panic != nil && !t.Crashed {
		if v := t.View(); v.EDS != nil && v.ERS != nil && v.Role() == "canary" {
			s.Violate("C06", "sync-crashed", panicSite(t.Stack), "%s (canary) crashed (%v): neither Canary-Failed nor Canary-Paused can be decided for this canary", t.Label(), t.Panic)
		}
	}
	if t.Ctrl != CtrlERS || !t.CleanButPodPatches() {
		return
	}
	v := t.View()
	if !v.Full() || v.EDS == nil || v.ERS == nil || v.Role() != "canary" {
		return
	}
	can := v.EDS.Spec.Strategy.Canary
	if can == nil || can.AutoFail == nil || can.AutoPause == nil || can.AutoFail.Enabled == nil || can.AutoPause.Enabled == nil {
		return
	}
	var written *edsv1.ExtendedDaemonSetReplicaSetStatus
	var endAt time.Time
	for _, c := range v.StatusWrites {
		if c.Kind == KERS && c.Err != nil {
			return // the status could not be written (e.g. the replica set was deleted meanwhile)
		}
		if c.Kind == KERS && c.Err == nil {
			o := &edsv1.ExtendedDaemonSetReplicaSet{}
			_ = json.Unmarshal(c.Out, o)
			written = &o.Status
			endAt = c.At
		}
	}
	if written == nil {
		// nothing changed: the status read is the status after
		written = &v.ERS.Status
		endAt = t.EndAt
	}
	canary := v.CanaryNodes()
	letter := letterOfTpl(&v.ERS.Spec.Template)
	perNode := map[string][]*corev1.Pod{}
	for _, p := range v.DaemonPods() {
		if p.Status.Phase != corev1.PodUnknown {
			perNode[podNode(p)] = append(perNode[podNode(p)], p)
		}
	}
	var pods []*corev1.Pod
	for _, node := range sortedKeys(canary) {
		ps := perNode[node]
		if len(ps) != 1 || v.Nodes[node] == nil {
			continue // duplicates / vanished node: which pod is evaluated is C01's business
		}
		p := ps[0]
		if terminating(p) || p.Status.Phase == corev1.PodFailed || letterOfPod(p) != letter || p.Annotations[hashKey] != v.ERS.Spec.TemplateGeneration {
			continue
		}
		if !eligibleSpec(v.Nodes[node], &v.ERS.Spec.Template.Spec) {
			continue
		}
		if len(v.Nodes[node].Annotations) > 0 || p.Labels[edsv1.ExtendedDaemonSetSettingNameLabelKey] != "" {
			continue // resource overrides may make the pod outdated: not judged here
		}
		replaced := false
		for _, c := range v.PodDeletes {
			replaced = replaced || (c.NS == p.Namespace && c.Name == p.Name)
		}
		if replaced {
			continue // the sync found the pod outdated (a setting that applies by now) and replaces it: not evaluated
		}
		pods = append(pods, p)
	}
	if len(pods) == 0 {
		return
	}
	s.Stats.NonVacuous["C06.sync"]++
	band := time.Second + absDur(time.Duration(s.W.Cfg.SkewSec)*time.Second) + absDur(time.Duration(s.W.Cfg.KubeletSkewSec)*time.Second)
	start, end := t.StartAt, endAt
	ann := v.EDS.Annotations
	readFailed := ersCondTrue(&v.ERS.Status, edsv1.ConditionTypeCanaryFailed)
	readPaused := ersCondTrue(&v.ERS.Status, edsv1.ConditionTypeCanaryPaused) || annTrue(ann, edsv1.ExtendedDaemonSetCanaryPausedAnnotationKey)
	unpaused := annTrue(ann, edsv1.ExtendedDaemonSetCanaryUnpausedAnnotationKey)
	af, ap := can.AutoFail, can.AutoPause

	// ---- failing ----
	mustFail, mayFail := false, false
	why := ""
	if *af.Enabled && af.MaxRestarts != nil {
		for _, p := range pods {
			if maxRestart(p) > *af.MaxRestarts {
				mustFail, mayFail = true, true
				why = "restart count"
			}
		}
		if af.MaxRestartsDuration != nil {
			if rc := ersCond(&v.ERS.Status, edsv1.ConditionTypePodRestarting); rc != nil {
				span := rc.LastUpdateTime.Sub(rc.LastTransitionTime.Time)
				if span > af.MaxRestartsDuration.Duration {
					mustFail = true
					why = "restart span"
				}
				ext := span
				for _, p := range pods {
					if lr := latestRestart(p); !lr.IsZero() && lr.Sub(rc.LastTransitionTime.Time) > ext {
						ext = lr.Sub(rc.LastTransitionTime.Time)
					}
				}
				if ext > af.MaxRestartsDuration.Duration-band {
					mayFail = true
				}
			}
		}
		if af.CanaryTimeout != nil {
			// "the canary has lasted longer than canaryTimeout": measured from the start of the replica
			// set's current stint as canary. When its syncs were seen to change role, that is the first
			// canary-role sync after the change (this very sync, possibly); otherwise the instant recorded
			// in the Canary condition stands in for it (this very sync if it was not true in the status read).
			since, running := end, false
			if cc := ersCond(&v.ERS.Status, edsv1.ConditionTypeCanary); cc != nil && cc.Status == corev1.ConditionTrue {
				since, running = cc.LastTransitionTime.Time, true
			}
			ek := t.Key.String()
			if prev, ok := m.roleSeen[ek]; ok {
				if prev != "canary" {
					since, running = end, false
					s.Stats.NonVacuous["C06.new-canary-stint"]++
				} else if ws, ok := m.canarySince[ek]; ok {
					since, running = ws, true
				}
			}
			if running && start.Sub(since) > af.CanaryTimeout.Duration+band {
				mustFail = true
				why = "timeout"
			}
			if end.Sub(since) > af.CanaryTimeout.Duration-band {
				mayFail = true
			}
		}
	}
	gotFailed := ersCondTrue(written, edsv1.ConditionTypeCanaryFailed)
	switch {
	case readFailed && !gotFailed:
		s.Violate("C06", "failed-sticky", "", "%s: Canary-Failed was true in the status read and is false after the sync", t.Label())
	case mustFail && !gotFailed:
		s.Violate("C06", "must-fail", why, "%s: auto-fail trigger (%s) holds but Canary-Failed is not true after the sync", t.Label(), why)
	case !mayFail && !readFailed && gotFailed:
		s.Violate("C06", "must-not-fail", "", "%s: Canary-Failed became true without any auto-fail trigger (enabled=%v)", t.Label(), *af.Enabled)
	}
	if mustFail {
		s.Probe("c06.must-fail")
	}

	// ---- pausing ----
	gotPaused := ersCondTrue(written, edsv1.ConditionTypeCanaryPaused)
	if !gotFailed && !readFailed && !mayFail {
		mustPause, mayPause := false, false
		pwhy := ""
		if *ap.Enabled && ap.MaxRestarts != nil {
			for _, p := range pods {
				if maxRestart(p) > *ap.MaxRestarts {
					mustPause, mayPause = true, true
					pwhy = "restart count"
				}
				// any container counts (a pod may have one container crash-looping and another still creating)
				anyCannot, anyCreating := false, false
				for _, list := range [][]corev1.ContainerStatus{p.Status.ContainerStatuses, p.Status.InitContainerStatuses, p.Status.EphemeralContainerStatuses} {
					for _, cs := range list {
						if cs.State.Waiting != nil {
							anyCannot = anyCannot || cannotStartSet[cs.State.Waiting.Reason]
							anyCreating = anyCreating || cs.State.Waiting.Reason == "ContainerCreating"
						}
					}
				}
				slow := ap.MaxSlowStartDuration
				var st time.Time
				if p.Status.StartTime != nil {
					st = p.Status.StartTime.Time
				}
				if anyCannot {
					if slow == nil {
						mustPause, mayPause = true, true
						pwhy = "cannot start"
					} else {
						if start.After(st.Add(slow.Duration + band)) {
							mustPause = true
							pwhy = "cannot start past maxSlowStartDuration"
						}
						if end.After(st.Add(slow.Duration - band)) {
							mayPause = true
						}
					}
				}
				if anyCreating && slow != nil {
					if start.After(st.Add(slow.Duration + band)) {
						mustPause = true
						pwhy = "still creating past maxSlowStartDuration"
					}
					if end.After(st.Add(slow.Duration - band)) {
						mayPause = true
					}
				}
			}
		}
		if mustPause {
			s.Probe("c06.must-pause")
		}
		switch {
		case unpaused && gotPaused:
			s.Violate("C06", "unpause-ignored", "", "%s: canary-unpaused is true, the canary is not failed, but Canary-Paused is true after the sync", t.Label())
		case !unpaused && mustPause && !gotPaused:
			s.Violate("C06", "must-pause", pwhy, "%s: auto-pause trigger (%s) holds but Canary-Paused is not true after the sync", t.Label(), pwhy)
		case !unpaused && !mayPause && !readPaused && gotPaused:
			reason, desc := "", ""
			if pc := ersCond(written, edsv1.ConditionTypeCanaryPaused); pc != nil {
				reason = pc.Reason
			}
			for _, p := range pods {
				desc += fmt.Sprintf(" [%s restarts=%d waiting=%q start=%v]", p.Name, maxRestart(p), waitingReason(p), p.Status.StartTime)
			}
			s.Violate("C06", "must-not-pause", "", "%s: Canary-Paused became true (reason %q) without trigger (autoPause enabled=%v, maxRestarts=%v, maxSlowStartDuration=%v); pods evaluated:%s", t.Label(), reason, *ap.Enabled, *ap.MaxRestarts, ap.MaxSlowStartDuration, desc)
		}
	}
	// restart tracking: what C05's noRestartsDuration clause relies on. After the sync the
	// PodRestarting condition records the latest restart of any container of the evaluated pods.
	var latest time.Time
	for _, p := range pods {
		if lr := latestRestart(p); lr.After(latest) {
			latest = lr
		}
	}
	if !latest.IsZero() {
		s.Stats.NonVacuous["C06.restart-tracking"]++
		rc := ersCond(written, edsv1.ConditionTypePodRestarting)
		if rc == nil || rc.LastUpdateTime.Time.Before(latest.Truncate(time.Second)) {
			got := "absent"
			if rc != nil {
				got = rc.LastUpdateTime.Time.UTC().Format(time.RFC3339)
			}
			s.Violate("C06", "restart-tracking", "", "%s: a container of a canary pod restarted at %s but the PodRestarting condition records %s", t.Label(), latest.UTC().Format(time.RFC3339), got)
			s.Violate("C05", "restart-tracking", "", "%s: the last canary pod restart (%s) is not recorded (condition says %s): noRestartsDuration would be measured from an older restart", t.Label(), latest.UTC().Format(time.RFC3339), got)
		}
	}
	if (gotPaused || gotFailed) && len(v.PodCreates) > 0 {
		s.Violate("C06", "create-while-held", "", "%s: result paused=%v failed=%v but %d canary pods were created", t.Label(), gotPaused, gotFailed, len(v.PodCreates))
	}
}

// PostCall: once Canary-Failed is true in the store it stays true while that replica set is the
// canary - whoever set it (the sync itself or kubectl-eds canary fail), and whatever the
// overwriting sync had read.
func (*monC06) PostCall(s *Sim, c *Call) {
	t := c.Task
	if c.Kind != KERS || (c.Verb != "updatestatus" && c.Verb != "patchstatus") || !c.Applied() || c.Pre == nil || c.Out == nil || t.Ctrl != CtrlERS || t.Crashed {
		return
	}
	pre, post := &edsv1.ExtendedDaemonSetReplicaSet{}, &edsv1.ExtendedDaemonSetReplicaSet{}
	_ = json.Unmarshal(c.Pre, pre)
	_ = json.Unmarshal(c.Out, post)
	// A pause (by annotation or by the replica set's own decision) ends on a manual unpause or when
	// the replica set becomes active - not because it was superseded for a while.
	if ersCondTrue(&pre.Status, edsv1.ConditionTypeCanaryPaused) && !ersCondTrue(&post.Status, edsv1.ConditionTypeCanaryPaused) && !ersCondTrue(&post.Status, edsv1.ConditionTypeCanaryFailed) {
		if v := t.View(); v.EDS != nil && v.ERS != nil && v.Role() != "active" && !annTrue(v.EDS.Annotations, edsv1.ExtendedDaemonSetCanaryUnpausedAnnotationKey) {
			s.Violate("C08", "pause-erased", v.Role(), "%s (role %s) cleared the Canary-Paused condition of %s although nobody unpaused or validated it", t.Label(), v.Role(), post.Name)
		}
	}
	// The record of the last canary pod restart only moves forward.
	if a, b := ersCond(&pre.Status, edsv1.ConditionTypePodRestarting), ersCond(&post.Status, edsv1.ConditionTypePodRestarting); a != nil && b != nil && b.LastUpdateTime.Time.Before(a.LastUpdateTime.Time) {
		s.Violate("C05", "restart-tracking", "rewound", "%s moved the recorded last restart back from %s to %s: noRestartsDuration would be measured from an older restart", t.Label(), a.LastUpdateTime.UTC().Format(time.RFC3339), b.LastUpdateTime.UTC().Format(time.RFC3339))
		s.Violate("C06", "restart-tracking", "rewound", "%s moved the recorded last restart back from %s to %s", t.Label(), a.LastUpdateTime.UTC().Format(time.RFC3339), b.LastUpdateTime.UTC().Format(time.RFC3339))
	}
	if !ersCondTrue(&pre.Status, edsv1.ConditionTypeCanaryFailed) || ersCondTrue(&post.Status, edsv1.ConditionTypeCanaryFailed) {
		return
	}
	v := t.View()
	if v.EDS == nil {
		return
	}
	e := s.Store.GetEDS(post.Namespace, v.EDS.Name)
	if e == nil {
		return
	}
	if v.Role() != "canary" {
		// Between the two writes of the rollback (status.canary already cleared, spec.template not
		// yet restored) the condition is the only durable record of the failure.
		if e.Status.Canary == nil && e.Status.ActiveReplicaSet != post.Name && e.Spec.Strategy.Canary != nil && letterOfTpl(&e.Spec.Template) == letterOfTpl(&post.Spec.Template) &&
			e.Annotations[edsv1.ExtendedDaemonSetCanaryValidAnnotationKey] != post.Name {
			s.Violate("C07", "failure-erased", "mid-rollback", "%s erased the Canary-Failed condition of %s while spec.template still is its template: the rollback will never be completed", t.Label(), post.Name)
			s.Violate("C02", "failure-erased", "mid-rollback", "%s erased the Canary-Failed condition of %s while spec.template still is its template: the failed template stays live", t.Label(), post.Name)
		}
		return
	}
	// still the canary in the store?
	if e.Status.Canary == nil || e.Status.Canary.ReplicaSet != post.Name {
		return
	}
	s.Violate("C06", "failed-sticky", "overwritten", "%s wrote a status that drops Canary-Failed=True which was set in the store (the sync had read the replica set before it was marked failed)", t.Label())
	s.Violate("C07", "failure-erased", "", "%s erased the Canary-Failed condition of the canary replica set %s: the rollback will never happen", t.Label(), post.Name)
	s.Violate("C19", "obeys", "fail-erased", "%s erased the Canary-Failed condition set by kubectl-eds canary fail on %s", t.Label(), post.Name)
	s.Violate("C02", "failure-erased", "", "%s erased the Canary-Failed condition of %s: the failed template stays live", t.Label(), post.Name)
}

// noteRole records in which role a replica set's last recorded sync ran, and when a stint as canary began.
func (m *monC06) noteRole(t *Task) {
	if t.Ctrl != CtrlERS || t.Crashed || t.Panic != nil {
		return
	}
	v := t.View()
	if v.EDS == nil || v.ERS == nil {
		return
	}
	wrote := false
	for _, c := range v.StatusWrites {
		if c.Kind == KERS && c.Applied() {
			wrote = true
		}
	}
	if !wrote {
		return
	}
	if m.roleSeen == nil {
		m.roleSeen, m.canarySince = map[string]string{}, map[string]time.Time{}
	}
	ek := t.Key.String()
	role := v.Role()
	if prev, ok := m.roleSeen[ek]; role == "canary" && ok && prev != "canary" {
		m.canarySince[ek] = t.StartAt
	} else if role != "canary" {
		delete(m.canarySince, ek)
	}
	m.roleSeen[ek] = role
}
