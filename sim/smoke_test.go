package sim

import (
	"fmt"
	"testing"
	"testing/synctest"
)

func plainWorld(n int) *World {
	w := &World{Profile: "smoke", DefaultValidationMode: "auto"}
	for i := 0; i < n; i++ {
		w.Nodes = append(w.Nodes, &NodeDef{Name: nodeName(i)})
	}
	w.EDS = []*EDSDef{{NS: "ns1", Name: "foo", Initial: "A", Templates: map[string]*TemplateDef{"A": {Letter: "A"}, "B": {Letter: "B"}}}}
	w.Cfg = Config{QuiesceRounds: 12, Kubelet: true}
	return w
}

func TestSmoke(t *testing.T) {
	synctest.Test(t, func(t *testing.T) {
		s := NewSim(1, plainWorld(3))
		s.logOn = true
		s.init()
		s.Setup()
		s.Quiesce()
		for _, l := range s.Log {
			fmt.Println(l)
		}
		for _, p := range s.Store.Pods() {
			fmt.Println(p.Name, p.Spec.NodeName, p.Status.Phase, letterOfPod(p))
		}
		e := s.Store.GetEDS("ns1", "foo")
		fmt.Printf("%+v\n", e.Status)
	})
}
