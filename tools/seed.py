#!/usr/bin/env python3
"""seed.py <id> <source-worktree> <prop> [more props...]
Confirms a seeded change (patch + demonstration) on a fresh worktree of /repo HEAD, runs the
quick checks of the given properties against it, and stores everything under /verif/seeded/<id>/."""
import json, os, shutil, subprocess, sys, time
sid, src = sys.argv[1], sys.argv[2]
props = sys.argv[3:]
ENV = dict(os.environ); ENV.pop('GOFLAGS', None); ENV.update({'GOPROXY': 'off', 'GOSUMDB': 'off'})
def sh(cmd, cwd=None, env=ENV, timeout=3600):
    p = subprocess.run(cmd, shell=True, cwd=cwd, env=env, stdout=subprocess.PIPE, stderr=subprocess.STDOUT, text=True, timeout=timeout)
    return p.returncode, p.stdout
out = '/verif/seeded/' + sid
os.makedirs(out, exist_ok=True)
rc, patch = sh("git diff -- . ':(exclude)*_test.go' ':(exclude)go.sum' ':(exclude)go.mod'", cwd=src)
if not patch.strip():
    sys.exit('no source diff in ' + src)
open(out + '/patch.diff', 'w').write(patch)
rc, untracked = sh("git ls-files --others --exclude-standard", cwd=src)
demos = [f for f in untracked.split() if f.endswith('_test.go')]
ev = '/tmp/mut/eval-' + sid
sh('git -C /repo worktree remove --force %s' % ev)
rc, o = sh('git -C /repo worktree add -q --detach %s HEAD' % ev)
meta = {'id': sid, 'properties': props, 'repo_head': sh('git -C /repo rev-parse --short HEAD')[1].strip(), 'demo_files': demos, 'ran': []}
def rec(what, rc, note=''):
    meta['ran'].append({'cmd': what, 'rc': rc, 'note': note}); print('  %-70s rc=%s %s' % (what[:70], rc, note))
rc, o = sh('git apply --3way %s/patch.diff || git apply %s/patch.diff' % (out, out), cwd=ev)
rec('git apply patch.diff on /repo HEAD', rc, o[-300:] if rc else '')
if rc: sys.exit('patch does not apply')
for d in demos:
    os.makedirs(os.path.dirname(os.path.join(ev, d)), exist_ok=True)
    shutil.copy(os.path.join(src, d), os.path.join(ev, d))
    shutil.copy(os.path.join(src, d), os.path.join(out, os.path.basename(d)))
rc, o = sh('go build ./... && (cd api && go build ./...)', cwd=ev); rec('go build ./...', rc, o[-300:] if rc else '')
pkgs = sorted({'./' + os.path.dirname(d) for d in demos})
demo_cmd = "go test -count=1 -run 'TestSeededDemo|Seeded' %s" % ' '.join(pkgs)
rc1, o1 = sh(demo_cmd, cwd=ev); rec('demo WITH the change: ' + demo_cmd, rc1, '(expected to fail)')
sh('git apply -R %s/patch.diff' % out, cwd=ev)
rc2, o2 = sh(demo_cmd, cwd=ev); rec('demo WITHOUT the change', rc2, '(expected to pass)' + (o2[-600:] if rc2 else ''))
sh('git apply %s/patch.diff' % out, cwd=ev)
# existing suite with the change (demo files moved aside)
for d in demos: os.rename(os.path.join(ev, d), os.path.join(ev, d) + '.aside')
b = json.load(open('/root/.vp/BASELINE.json')); want = set(b['stable_pass']); passed = set()
for mod in (ev, ev + '/api'):
    p = subprocess.run(['go', 'test', '-json', '-vet=off', '-count=1', './...'], cwd=mod, env=ENV, stdout=subprocess.PIPE, stderr=subprocess.DEVNULL, text=True)
    for line in p.stdout.splitlines():
        try: dd = json.loads(line)
        except Exception: continue
        if dd.get('Test') and dd.get('Action') == 'pass': passed.add(dd['Package'] + '::' + dd['Test'])
missing = sorted(want - passed)
rec('existing suite with the change (333 stable tests)', len(missing), 'not passing: %s' % missing[:5] if missing else 'all pass')
for d in demos: os.rename(os.path.join(ev, d) + '.aside', os.path.join(ev, d))
meta['confirmed'] = (rc1 != 0 and rc2 == 0 and not missing)
# our checks against the mutant
meta['checks'] = {}
for d in demos: os.remove(os.path.join(ev, d))
for p in props:
    t0 = time.time()
    e = dict(os.environ); e['VERIF_REPO'] = ev
    r = subprocess.run(['/verif/check', p, os.environ.get('TIER', 'quick')], env=e, stdout=subprocess.PIPE, stderr=subprocess.STDOUT, text=True)
    lines = [l for l in r.stdout.splitlines() if l.startswith(('VIOLATION', 'KNOWN', 'check ', 'CHECK-ERROR', '  monitor='))]
    meta['checks'][p] = {'exit': r.returncode, 'wall_s': round(time.time() - t0, 1), 'output': [l[:400] for l in lines[:12]]}
    print('  check %s: exit %d  %s' % (p, r.returncode, ' | '.join(l[:160] for l in lines[:3])))
json.dump(meta, open(out + '/meta.json', 'w'), indent=1)
sh('git -C /repo worktree remove --force %s' % ev)
print('confirmed=%s' % meta['confirmed'])
