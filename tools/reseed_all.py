#!/usr/bin/env python3
"""reseed_all.py [id-prefix...]
Regression of detection power: every change kept under /verif/seeded/<id>/ is applied to a scratch
worktree of /repo HEAD and the quick checks of the properties recorded in its meta.json are run
against it (VERIF_REPO). Prints one line per change and writes /verif/seeded/MATRIX.json.
Nothing is committed to /repo; the worktree is removed afterwards."""
import json, os, subprocess, sys, time
pref = sys.argv[1:]
ids = sorted(d for d in os.listdir('/verif/seeded') if os.path.isfile('/verif/seeded/%s/patch.diff' % d))
if pref:
    ids = [i for i in ids if any(i.startswith(p) for p in pref)]
matrix = {}
mpath = os.environ.get('MATRIX_OUT', '/verif/seeded/MATRIX.json')
if os.path.exists(mpath):
    matrix = json.load(open(mpath))
def sh(cmd, **kw):
    return subprocess.run(cmd, shell=True, stdout=subprocess.PIPE, stderr=subprocess.STDOUT, text=True, **kw)
head = sh('git -C /repo rev-parse --short HEAD').stdout.strip()
for sid in ids:
    meta = json.load(open('/verif/seeded/%s/meta.json' % sid))
    if sid in matrix and matrix[sid].get('repo_head') == head and os.environ.get('REDO') != '1':
        continue
    wt = '/tmp/mut/re-' + sid
    sh('git -C /repo worktree remove --force ' + wt)
    sh('git -C /repo worktree add -q --detach %s HEAD' % wt)
    r = sh('git apply --3way /verif/seeded/%s/patch.diff || git apply /verif/seeded/%s/patch.diff' % (sid, sid), cwd=wt)
    row = {'repo_head': head, 'checks': {}}
    if r.returncode:
        row['error'] = 'patch does not apply: ' + r.stdout[-200:]
    else:
        props = [meta['properties'][0]] + [q for q in meta['properties'][1:] if (meta.get('checks') or {}).get(q, {}).get('exit') == 1]
        for p in props:
            e = dict(os.environ); e['VERIF_REPO'] = wt
            t0 = time.time()
            c = subprocess.run(['/verif/check', p, 'quick'], env=e, stdout=subprocess.PIPE, stderr=subprocess.STDOUT, text=True)
            mons = sorted({l.split('monitor=')[1].split(':')[0] for l in c.stdout.splitlines() if 'monitor=' in l})
            row['checks'][p] = {'exit': c.returncode, 'monitors': mons[:6], 'wall_s': round(time.time() - t0, 1)}
    sh('git -C /repo worktree remove --force ' + wt)
    matrix[sid] = row
    caught = [p for p, v in row['checks'].items() if v['exit'] == 1]
    print('%-6s caught by %-20s not by %s %s' % (sid, ','.join(caught) or '-', ','.join(p for p, v in row['checks'].items() if v['exit'] != 1) or '-', row.get('error', '')), flush=True)
    json.dump(matrix, open(mpath, 'w'), indent=1, sort_keys=True)
sh('git -C /repo worktree prune')
