// Package simorder gives every `range` over a map in the code under test an iteration order
// chosen by the simulator. The map-order overlay (tools/maporder) rewrites
//
//	for k, v := range m { ... }      into      for _, k := range simorder.Keys(m, "site") { v := m[k]; ... }
//
// Keys sorts the keys canonically and then permutes them with a generator seeded from
// (run seed, salt set by the driver at its last decision, site, key set). With no seed
// installed the canonical order is returned.
package simorder

import (
	"encoding/json"
	"fmt"
	"hash/fnv"
	"math/rand/v2"
	"reflect"
	"sort"
	"sync/atomic"
)

var (
	seed  atomic.Uint64
	salt  atomic.Uint64
	calls atomic.Uint64
	// Mode: 0 = seeded permutation, 1 = canonical order, 2 = reverse canonical
	mode atomic.Int32
)

func SetSeed(s uint64) { seed.Store(s) }
func SetSalt(s uint64) { salt.Store(s) }
func SetMode(m int32)  { mode.Store(m) }
func Calls() uint64    { return calls.Load() }

func keyString(v reflect.Value) string {
	switch v.Kind() {
	case reflect.String:
		return v.String()
	case reflect.Int, reflect.Int8, reflect.Int16, reflect.Int32, reflect.Int64:
		return fmt.Sprintf("%020d", v.Int())
	case reflect.Uint, reflect.Uint8, reflect.Uint16, reflect.Uint32, reflect.Uint64:
		return fmt.Sprintf("%020d", v.Uint())
	case reflect.Bool:
		return fmt.Sprint(v.Bool())
	case reflect.Pointer, reflect.Interface:
		if v.IsNil() {
			return ""
		}
		return keyString(v.Elem())
	case reflect.Struct:
		// objects with a name: *strategy.NodeItem{Node}, corev1 objects
		if f := v.FieldByName("Node"); f.IsValid() {
			return keyString(f)
		}
		if f := v.FieldByName("ObjectMeta"); f.IsValid() {
			ns := f.FieldByName("Namespace").String()
			return ns + "/" + f.FieldByName("Name").String()
		}
		if f := v.FieldByName("Name"); f.IsValid() && f.Kind() == reflect.String {
			return f.String()
		}
	}
	if v.CanInterface() {
		b, err := json.Marshal(v.Interface())
		if err == nil {
			return string(b)
		}
	}
	return fmt.Sprintf("%v", v)
}

// Keys returns the keys of m in the simulator's order.
func Keys[K comparable, V any](m map[K]V, site string) []K {
	calls.Add(1)
	n := len(m)
	if n == 0 {
		return nil
	}
	type ks struct {
		k K
		s string
	}
	arr := make([]ks, 0, n)
	for k := range m {
		arr = append(arr, ks{k, keyString(reflect.ValueOf(k))})
	}
	sort.Slice(arr, func(i, j int) bool { return arr[i].s < arr[j].s })
	out := make([]K, n)
	for i := range arr {
		out[i] = arr[i].k
	}
	sd := seed.Load()
	switch {
	case sd == 0 || mode.Load() == 1:
		return out
	case mode.Load() == 2:
		for i, j := 0, n-1; i < j; i, j = i+1, j-1 {
			out[i], out[j] = out[j], out[i]
		}
		return out
	}
	h := fnv.New64a()
	h.Write([]byte(site))
	for i := range arr {
		h.Write([]byte(arr[i].s))
		h.Write([]byte{0})
	}
	r := rand.New(rand.NewPCG(sd^salt.Load(), h.Sum64()))
	r.Shuffle(n, func(i, j int) { out[i], out[j] = out[j], out[i] })
	return out
}
