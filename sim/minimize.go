package sim

import (
	"encoding/json"
	"testing"
)

func cloneWorld(w *World) *World {
	b, _ := json.Marshal(w)
	c := &World{}
	_ = json.Unmarshal(b, c)
	return c
}

func sameViolation(res *RunResult, want *Violation) *Violation {
	if res.EngineErr != "" {
		return nil
	}
	for i := range res.Violations {
		v := &res.Violations[i]
		if v.Prop == want.Prop && v.Monitor == want.Monitor && (want.Monitor != "safety" || v.Sig == want.Sig) {
			return v
		}
	}
	return nil
}

// Minimize shrinks the trace (delta debugging) and then the world, keeping a candidate
// only if the same monitor of the same property still fires.
func Minimize(t *testing.T, rf *ReplayFile, budget int) *ReplayFile {
	p := profiles[rf.Profile]
	runs := 0
	try := func(w *World, tr []Decision) *Violation {
		runs++
		res := RunOne(t, p, rf.RunSeed, cloneWorld(w), tr, rf.UseTrace, false)
		if p.Name == "C11" {
			c11Translate(res)
		}
		return sameViolation(res, rf.Violation)
	}
	cur := rf.Trace
	w := rf.World
	v0 := try(w, cur)
	if v0 == nil {
		return nil
	}
	out := *rf
	out.OrigTraceLen = len(rf.Trace)
	if rf.UseTrace {
		// ddmin on the decision list
		n := 2
		for len(cur) >= 1 && runs < budget {
			chunk := (len(cur) + n - 1) / n
			reduced := false
			for start := 0; start < len(cur) && runs < budget; start += chunk {
				end := start + chunk
				if end > len(cur) {
					end = len(cur)
				}
				cand := append(append([]Decision{}, cur[:start]...), cur[end:]...)
				if try(w, cand) != nil {
					cur = cand
					if n > 2 {
						n--
					}
					reduced = true
					break
				}
			}
			if !reduced {
				if chunk == 1 {
					break
				}
				n *= 2
				if n > len(cur) {
					n = len(cur)
				}
			}
		}
		// replace faults by none
		for i := range cur {
			if cur[i].F != "" && runs < budget {
				cand := append([]Decision{}, cur...)
				cand[i].F = ""
				if try(w, cand) != nil {
					cur = cand
				}
			}
		}
	}
	// shrink the world
	shrinkers := []func(*World) bool{}
	for i := len(w.Nodes) - 1; i >= 0; i-- {
		i := i
		shrinkers = append(shrinkers, func(c *World) bool {
			if i >= len(c.Nodes) || len(c.Nodes) <= 1 {
				return false
			}
			c.Nodes = append(c.Nodes[:i], c.Nodes[i+1:]...)
			return true
		})
	}
	shrinkers = append(shrinkers,
		func(c *World) bool { ok := len(c.SpareNodes) > 0; c.SpareNodes = nil; return ok },
		func(c *World) bool { ok := len(c.Settings) > 0; c.Settings = nil; return ok },
		func(c *World) bool { ok := len(c.EDS) > 1; if ok { c.EDS = c.EDS[:1] }; return ok },
		func(c *World) bool { ok := c.Cfg.MapOrder != 1; c.Cfg.MapOrder = 1; return ok },
		func(c *World) bool { ok := c.Cfg.SkewSec != 0 || c.Cfg.KubeletSkewSec != 0; c.Cfg.SkewSec, c.Cfg.KubeletSkewSec = 0, 0; return ok },
		func(c *World) bool { ok := c.Foreign; c.Foreign = false; return ok },
	)
	for _, sh := range shrinkers {
		if runs >= budget {
			break
		}
		c := cloneWorld(w)
		if !sh(c) {
			continue
		}
		if try(c, cur) != nil {
			w = c
		}
	}
	v := try(w, cur)
	if v == nil {
		return nil
	}
	out.World = w
	out.Trace = cur
	out.Violation = v
	out.Minimised = true
	return &out
}
