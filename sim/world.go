package sim

// World description: what a run starts from and which actors/faults are enabled. Every
// field is drawn from the run's PRNG by a profile (or fixed by a scripted scenario) and is
// written into the trace file, so a replay needs nothing else.

import (
	"strings"
	"encoding/json"
	"fmt"
	"math/rand/v2"
	"sort"
	"time"

	corev1 "k8s.io/api/core/v1"
	"k8s.io/apimachinery/pkg/api/resource"
	metav1 "k8s.io/apimachinery/pkg/apis/meta/v1"
	"k8s.io/apimachinery/pkg/util/intstr"

	edsv1 "github.com/DataDog/extendeddaemonset/api/v1alpha1"
)

type TemplateDef struct {
	Letter       string                   `json:"letter"`
	NodeSelector map[string]string        `json:"nodeSelector,omitempty"`
	AffinityKind string                   `json:"affinity,omitempty"` // "", "zoneA", "notPoolY", "hasZone", "two-terms", "nameNotN1"
	Tolerate     []string                 `json:"tolerate,omitempty"` // taint keys tolerated (Exists); "*" = tolerate everything
	Side         bool                     `json:"side,omitempty"`     // second container
	Cpu          string                   `json:"cpu,omitempty"`      // request of container main
	Mem          string                   `json:"mem,omitempty"`      // memory request of container main, spelled as given ("128Mi" / "134217728")
	NoLabels     bool                     `json:"noLabels,omitempty"` // the template carries no labels at all
	Checksum     string                   `json:"checksum,omitempty"` // pod annotation checksum/config: a template that differs from its twin in metadata only ("X^")
	ForeignOwner bool                     `json:"foreignOwner,omitempty"` // the template was written from the YAML of a pod of the DaemonSet being replaced: it carries that pod's controller owner reference
	PastedHash   bool                     `json:"pastedHash,omitempty"` // the template was written from the YAML of a running pod: it carries a (stale) template-hash annotation
	Labels       map[string]string        `json:"labels,omitempty"`
	Namespace    string                   `json:"namespace,omitempty"` // spec.template.metadata.namespace (normally empty)
}

func (t *TemplateDef) Image() string { return "img:" + t.Letter }

func (t *TemplateDef) Affinity() *corev1.Affinity {
	req := func(terms ...corev1.NodeSelectorTerm) *corev1.Affinity {
		return &corev1.Affinity{NodeAffinity: &corev1.NodeAffinity{RequiredDuringSchedulingIgnoredDuringExecution: &corev1.NodeSelector{NodeSelectorTerms: terms}}}
	}
	expr := func(k string, op corev1.NodeSelectorOperator, v ...string) corev1.NodeSelectorRequirement {
		return corev1.NodeSelectorRequirement{Key: k, Operator: op, Values: v}
	}
	switch t.AffinityKind {
	case "":
		return nil
	case "zoneA":
		return req(corev1.NodeSelectorTerm{MatchExpressions: []corev1.NodeSelectorRequirement{expr("zone", corev1.NodeSelectorOpIn, "a")}})
	case "notPoolY":
		return req(corev1.NodeSelectorTerm{MatchExpressions: []corev1.NodeSelectorRequirement{expr("pool", corev1.NodeSelectorOpNotIn, "y")}})
	case "hasZone":
		return req(corev1.NodeSelectorTerm{MatchExpressions: []corev1.NodeSelectorRequirement{expr("zone", corev1.NodeSelectorOpExists)}})
	case "noExclude":
		return req(corev1.NodeSelectorTerm{MatchExpressions: []corev1.NodeSelectorRequirement{expr("exclude", corev1.NodeSelectorOpDoesNotExist)}})
	case "hasZone-or-not":
		// matches every node; its only purpose is a non-nil affinity in the template
		return req(
			corev1.NodeSelectorTerm{MatchExpressions: []corev1.NodeSelectorRequirement{expr("zone", corev1.NodeSelectorOpExists)}},
			corev1.NodeSelectorTerm{MatchExpressions: []corev1.NodeSelectorRequirement{expr("zone", corev1.NodeSelectorOpDoesNotExist)}},
		)
	case "two-terms":
		return req(
			corev1.NodeSelectorTerm{MatchExpressions: []corev1.NodeSelectorRequirement{expr("zone", corev1.NodeSelectorOpIn, "a")}},
			corev1.NodeSelectorTerm{MatchExpressions: []corev1.NodeSelectorRequirement{expr("pool", corev1.NodeSelectorOpIn, "x")}},
		)
	case "nameNotN1":
		// an exclusion by node name: valid, unusual; the per-node pin must replace it
		return req(corev1.NodeSelectorTerm{MatchFields: []corev1.NodeSelectorRequirement{expr("metadata.name", corev1.NodeSelectorOpNotIn, "n01")}})
	case "hasZoneNotN1":
		// one term: a label expression AND a field requirement
		return req(corev1.NodeSelectorTerm{
			MatchExpressions: []corev1.NodeSelectorRequirement{expr("zone", corev1.NodeSelectorOpExists)},
			MatchFields:      []corev1.NodeSelectorRequirement{expr("metadata.name", corev1.NodeSelectorOpNotIn, "n01")},
		})
	case "preferred-only":
		return &corev1.Affinity{NodeAffinity: &corev1.NodeAffinity{PreferredDuringSchedulingIgnoredDuringExecution: []corev1.PreferredSchedulingTerm{{Weight: 1, Preference: corev1.NodeSelectorTerm{MatchExpressions: []corev1.NodeSelectorRequirement{expr("zone", corev1.NodeSelectorOpIn, "a")}}}}}}
	}
	panic("affinity kind " + t.AffinityKind)
}

func (t *TemplateDef) Tolerations() []corev1.Toleration {
	var out []corev1.Toleration
	for _, k := range t.Tolerate {
		if k == "*" {
			out = append(out, corev1.Toleration{Operator: corev1.TolerationOpExists})
		} else if k == "timed" {
			// what the DefaultTolerationSeconds admission plugin adds to ordinary pods: the keys of two
			// default DaemonSet tolerations, but bounded in time
			sec := int64(300)
			out = append(out, corev1.Toleration{Key: "node.kubernetes.io/not-ready", Operator: corev1.TolerationOpExists, Effect: corev1.TaintEffectNoExecute, TolerationSeconds: &sec},
				corev1.Toleration{Key: "node.kubernetes.io/unreachable", Operator: corev1.TolerationOpExists, Effect: corev1.TaintEffectNoExecute, TolerationSeconds: &sec})
		} else {
			out = append(out, corev1.Toleration{Key: k, Operator: corev1.TolerationOpExists})
		}
	}
	return out
}

func (t *TemplateDef) Spec() corev1.PodTemplateSpec {
	cs := []corev1.Container{{Name: "main", Image: t.Image()}}
	if t.Cpu != "" {
		cs[0].Resources = corev1.ResourceRequirements{Requests: corev1.ResourceList{corev1.ResourceCPU: resource.MustParse(t.Cpu)}}
	}
	if t.Mem != "" {
		if cs[0].Resources.Requests == nil {
			cs[0].Resources.Requests = corev1.ResourceList{}
		}
		cs[0].Resources.Requests[corev1.ResourceMemory] = resource.MustParse(t.Mem)
	}
	if t.Side {
		cs = append(cs, corev1.Container{Name: "side", Image: "side:" + t.Letter})
	}
	lbls := map[string]string{"app": "daemon"}
	for k, v := range t.Labels {
		lbls[k] = v
	}
	if t.NoLabels {
		lbls = nil
	}
	var anns map[string]string
	if t.Checksum != "" {
		anns = map[string]string{checksumAnnotation: t.Checksum}
	}
	if t.PastedHash {
		if anns == nil {
			anns = map[string]string{}
		}
		anns[edsv1.MD5ExtendedDaemonSetAnnotationKey] = "0123456789abcdef0123456789abcdef"
	}
	var owners []metav1.OwnerReference
	if t.ForeignOwner {
		owners = []metav1.OwnerReference{{APIVersion: "apps/v1", Kind: "DaemonSet", Name: "old-agent", UID: "uid-old-agent", Controller: bptr(true)}}
	}
	return corev1.PodTemplateSpec{
		ObjectMeta: metav1.ObjectMeta{Labels: lbls, Annotations: anns, Namespace: t.Namespace, OwnerReferences: owners},
		Spec: corev1.PodSpec{
			Containers:   cs,
			NodeSelector: t.NodeSelector,
			Affinity:     t.Affinity(),
			Tolerations:  t.Tolerations(),
		},
	}
}

type NodeDef struct {
	Bare        bool              `json:"bare,omitempty"`
	Name        string            `json:"name"`
	Labels      map[string]string `json:"labels,omitempty"`
	Taints      []string          `json:"taints,omitempty"` // "key:Effect"
	Annotations map[string]string `json:"annotations,omitempty"`
}

func parseTaint(s string) corev1.Taint {
	for i := len(s) - 1; i >= 0; i-- {
		if s[i] == ':' {
			return corev1.Taint{Key: s[:i], Effect: corev1.TaintEffect(s[i+1:])}
		}
	}
	panic("taint " + s)
}

func (n *NodeDef) Object() *corev1.Node {
	node := &corev1.Node{ObjectMeta: metav1.ObjectMeta{Name: n.Name, Labels: map[string]string{}, Annotations: n.Annotations}}
	for k, v := range n.Labels {
		node.Labels[k] = v
	}
	node.Labels["kubernetes.io/hostname"] = n.Name
	if n.Bare {
		node.Labels = nil // a Node object registered without any label
	}
	for _, t := range n.Taints {
		node.Spec.Taints = append(node.Spec.Taints, parseTaint(t))
	}
	node.Status.Conditions = []corev1.NodeCondition{{Type: corev1.NodeReady, Status: corev1.ConditionTrue}}
	return node
}

// StrategyDef is the user-level strategy; nil pointers mean "left to defaulting".
type StrategyDef struct {
	MaxUnavailable       string `json:"maxUnavailable,omitempty"`
	MaxPodSchedulerFail  string `json:"maxPodSchedulerFailure,omitempty"`
	MaxParallel          *int32 `json:"maxParallelPodCreation,omitempty"`
	SlowStartInterval    string `json:"slowStartIntervalDuration,omitempty"`
	SlowStartIncrease    string `json:"slowStartAdditiveIncrease,omitempty"`
	ReconcileFrequency   string `json:"reconcileFrequency,omitempty"`
	Canary               *CanaryDef `json:"canary,omitempty"`
}

type CanaryDef struct {
	Replicas            string            `json:"replicas,omitempty"`
	Duration            string            `json:"duration,omitempty"`
	NoRestartsDuration  string            `json:"noRestartsDuration,omitempty"`
	ValidationMode      string            `json:"validationMode,omitempty"`
	NodeSelector        map[string]string `json:"nodeSelector,omitempty"`
	NodeSelectorExpr    []string          `json:"nodeSelectorExpr,omitempty"` // "key op v1,v2" with op In/NotIn/Exists/DoesNotExist
	AntiAffinityKeys    []string          `json:"nodeAntiAffinityKeys,omitempty"`
	AutoPauseEnabled    *bool             `json:"autoPauseEnabled,omitempty"`
	AutoPauseMaxRestarts *int32           `json:"autoPauseMaxRestarts,omitempty"`
	MaxSlowStartDuration string           `json:"maxSlowStartDuration,omitempty"`
	AutoFailEnabled     *bool             `json:"autoFailEnabled,omitempty"`
	AutoFailMaxRestarts *int32            `json:"autoFailMaxRestarts,omitempty"`
	MaxRestartsDuration string            `json:"maxRestartsDuration,omitempty"`
	CanaryTimeout       string            `json:"canaryTimeout,omitempty"`
}

func intOrStr(s string) *intstr.IntOrString {
	if s == "" {
		return nil
	}
	v := intstr.Parse(s)
	return &v
}

func durPtr(s string) *metav1.Duration {
	if s == "" {
		return nil
	}
	d, err := time.ParseDuration(s)
	if err != nil {
		panic(err)
	}
	return &metav1.Duration{Duration: d}
}

func (c *CanaryDef) Object() *edsv1.ExtendedDaemonSetSpecStrategyCanary {
	if c == nil {
		return nil
	}
	o := &edsv1.ExtendedDaemonSetSpecStrategyCanary{
		Replicas:             intOrStr(c.Replicas),
		Duration:             durPtr(c.Duration),
		NoRestartsDuration:   durPtr(c.NoRestartsDuration),
		ValidationMode:       edsv1.ExtendedDaemonSetSpecStrategyCanaryValidationMode(c.ValidationMode),
		NodeAntiAffinityKeys: c.AntiAffinityKeys,
	}
	if c.NodeSelector != nil || len(c.NodeSelectorExpr) > 0 {
		o.NodeSelector = &metav1.LabelSelector{MatchLabels: c.NodeSelector}
		for _, e := range c.NodeSelectorExpr {
			f := strings.Fields(e)
			req := metav1.LabelSelectorRequirement{Key: f[0], Operator: metav1.LabelSelectorOperator(f[1])}
			if len(f) > 2 {
				req.Values = strings.Split(f[2], ",")
			}
			o.NodeSelector.MatchExpressions = append(o.NodeSelector.MatchExpressions, req)
		}
	}
	if c.AutoPauseEnabled != nil || c.AutoPauseMaxRestarts != nil || c.MaxSlowStartDuration != "" {
		o.AutoPause = &edsv1.ExtendedDaemonSetSpecStrategyCanaryAutoPause{Enabled: c.AutoPauseEnabled, MaxRestarts: c.AutoPauseMaxRestarts, MaxSlowStartDuration: durPtr(c.MaxSlowStartDuration)}
	}
	if c.AutoFailEnabled != nil || c.AutoFailMaxRestarts != nil || c.MaxRestartsDuration != "" || c.CanaryTimeout != "" {
		o.AutoFail = &edsv1.ExtendedDaemonSetSpecStrategyCanaryAutoFail{Enabled: c.AutoFailEnabled, MaxRestarts: c.AutoFailMaxRestarts, MaxRestartsDuration: durPtr(c.MaxRestartsDuration), CanaryTimeout: durPtr(c.CanaryTimeout)}
	}
	return o
}

func (st *StrategyDef) Object() edsv1.ExtendedDaemonSetSpecStrategy {
	return edsv1.ExtendedDaemonSetSpecStrategy{
		RollingUpdate: edsv1.ExtendedDaemonSetSpecStrategyRollingUpdate{
			MaxUnavailable:            intOrStr(st.MaxUnavailable),
			MaxPodSchedulerFailure:    intOrStr(st.MaxPodSchedulerFail),
			MaxParallelPodCreation:    st.MaxParallel,
			SlowStartIntervalDuration: durPtr(st.SlowStartInterval),
			SlowStartAdditiveIncrease: intOrStr(st.SlowStartIncrease),
		},
		Canary:             st.Canary.Object(),
		ReconcileFrequency: durPtr(st.ReconcileFrequency),
	}
}

type EDSDef struct {
	NS          string                  `json:"ns"`
	Name        string                  `json:"name"`
	Templates   map[string]*TemplateDef `json:"templates"`
	Initial     string                  `json:"initial"`
	Strategy    StrategyDef             `json:"strategy"`
	Annotations map[string]string       `json:"annotations,omitempty"`
	OldDS       string                  `json:"oldDaemonSet,omitempty"`
}

func (e *EDSDef) Key() string { return e.NS + "/" + e.Name }

func (e *EDSDef) Object() *edsv1.ExtendedDaemonSet {
	o := &edsv1.ExtendedDaemonSet{
		ObjectMeta: metav1.ObjectMeta{Namespace: e.NS, Name: e.Name, Annotations: map[string]string{}},
		Spec: edsv1.ExtendedDaemonSetSpec{
			Template: e.Templates[e.Initial].Spec(),
			Strategy: e.Strategy.Object(),
		},
	}
	for k, v := range e.Annotations {
		o.Annotations[k] = v
	}
	if e.OldDS != "" {
		o.Annotations[edsv1.ExtendedDaemonSetOldDaemonsetAnnotationKey] = e.OldDS
	}
	return o
}

type SettingDef struct {
	NS        string            `json:"ns"`
	Name      string            `json:"name"`
	Ref       string            `json:"ref"` // EDS name; "" = no reference
	Selector  map[string]string `json:"selector,omitempty"`
	ExprKey   string            `json:"exprKey,omitempty"`
	ExprOp    string            `json:"exprOp,omitempty"`
	ExprVals  []string          `json:"exprVals,omitempty"`
	Container string            `json:"container"`
	Cpu       string            `json:"cpu"`
	Container2 string           `json:"container2,omitempty"`
	Cpu2      string            `json:"cpu2,omitempty"`
	AgeSec    int               `json:"ageSec"` // creation offset, seconds before start (equal/different creation times)
	Terminating bool            `json:"terminating,omitempty"` // deleted by the user but held by a finalizer: it still exists and still applies
}

func (sd *SettingDef) Object() *edsv1.ExtendedDaemonsetSetting {
	o := &edsv1.ExtendedDaemonsetSetting{ObjectMeta: metav1.ObjectMeta{Namespace: sd.NS, Name: sd.Name}}
	if sd.Ref != "" {
		o.Spec.Reference = refTo(sd.Ref)
	}
	o.Spec.NodeSelector = metav1.LabelSelector{MatchLabels: sd.Selector}
	if sd.ExprKey != "" {
		o.Spec.NodeSelector.MatchExpressions = []metav1.LabelSelectorRequirement{{Key: sd.ExprKey, Operator: metav1.LabelSelectorOperator(sd.ExprOp), Values: sd.ExprVals}}
	}
	if sd.Container != "" {
		o.Spec.Containers = []edsv1.ExtendedDaemonsetSettingContainerSpec{{Name: sd.Container, Resources: corev1.ResourceRequirements{Requests: corev1.ResourceList{corev1.ResourceCPU: resource.MustParse(sd.Cpu)}}}}
		if sd.Container2 != "" {
			o.Spec.Containers = append(o.Spec.Containers, edsv1.ExtendedDaemonsetSettingContainerSpec{Name: sd.Container2, Resources: corev1.ResourceRequirements{Requests: corev1.ResourceList{corev1.ResourceCPU: resource.MustParse(sd.Cpu2)}}})
		}
	}
	return o
}

// Config: which actors and faults a run enables.
type Config struct {
	ChaosSteps   int     `json:"chaosSteps"`
	QuiesceRounds int    `json:"quiesceRounds"`
	PReject      float64 `json:"pReject"`
	PLost        float64 `json:"pLost"`
	PCrash       float64 `json:"pCrash"`
	Stall        bool    `json:"stall"`
	SkewSec      int     `json:"skewSec"` // API-server clock offset
	KubeletSkewSec int   `json:"kubeletSkewSec"`
	Kubelet      bool    `json:"kubelet"`      // benign kubelet actions (bind/start/ready/finalize)
	KubeletFaults bool   `json:"kubeletFaults"` // restarts, cannot-start, failed, unknown, stuck
	NodeChurn    bool    `json:"nodeChurn"`
	TemplateEdits bool   `json:"templateEdits"`
	AnnotationEdits bool `json:"annotationEdits"`
	CLI          bool    `json:"cli"`
	SettingEdits bool    `json:"settingEdits"`
	EDSDelete    bool    `json:"edsDelete"`
	StrategyEdits bool   `json:"strategyEdits"`
	LabelEdits   bool    `json:"labelEdits,omitempty"` // labels of the ExtendedDaemonSet itself change (helm upgrade, kubectl label)
	PodTplEdits  bool    `json:"podTplEdits,omitempty"` // somebody deletes the PodTemplate, or creates one of that name first
	PatchDenied  bool    `json:"patchDenied,omitempty"` // every pod patch of the replica-set controller is refused (missing verb, admission webhook)
	Evictions    bool    `json:"evictions,omitempty"` // daemon pods are deleted by somebody else (drain, eviction)
	ModeEdits    bool    `json:"modeEdits,omitempty"` // the user flips canary.validationMode on the defaulted object
	ERSTouch     bool    `json:"ersTouch,omitempty"` // somebody edits the metadata of replica sets (kubectl annotate)
	MigrationEdits bool  `json:"migrationEdits,omitempty"` // the old-daemonset annotation is removed / put back
	Policy       string  `json:"policy"` // uniform, chaser, starver
	Starve       string  `json:"starve,omitempty"`
	MapOrder     int     `json:"mapOrder"` // 0 seeded, 1 canonical, 2 reverse
	EndCanary    string  `json:"endCanary,omitempty"` // how quiesce ends a running canary: "", wait, validate, fail, hold
	NoQuiesce    bool    `json:"noQuiesce,omitempty"`
	SaneOnly     bool    `json:"saneOnly,omitempty"` // clear pause/freeze annotations before quiesce
	TargetRollback bool  `json:"targetRollback,omitempty"` // bias faults onto the EDS reconciler's status/spec writes
	TargetCall   string  `json:"targetCall,omitempty"`     // bias rejects onto calls whose description contains this
}

type World struct {
	Profile               string        `json:"profile"`
	Nodes                 []*NodeDef    `json:"nodes"`
	SpareNodes            []*NodeDef    `json:"spareNodes,omitempty"` // may be added by churn
	EDS                   []*EDSDef     `json:"eds"`
	Settings              []*SettingDef `json:"settings,omitempty"`
	AffinityMode          bool          `json:"affinityMode"`
	DefaultValidationMode edsv1.ExtendedDaemonSetSpecStrategyCanaryValidationMode `json:"defaultValidationMode"`
	Foreign               bool          `json:"foreign,omitempty"` // unrelated pods / daemonsets with overlapping labels
	Cfg                   Config        `json:"cfg"`
	Script                []string      `json:"script,omitempty"` // scripted scenario steps (C11, C16)
	Extra                 map[string]string `json:"extra,omitempty"`
}

func (w *World) JSON() []byte { b, _ := json.Marshal(w); return b }

func (w *World) EDSDef(ns, name string) *EDSDef {
	for _, e := range w.EDS {
		if e.NS == ns && e.Name == name {
			return e
		}
	}
	return nil
}

// ---------------------------------------------------------------------------------------
// drawing helpers

func pick[T any](r *rand.Rand, xs ...T) T { return xs[r.IntN(len(xs))] }

func chance(r *rand.Rand, p float64) bool { return r.Float64() < p }

func i32(v int32) *int32 { return &v }
func bptr(v bool) *bool  { return &v }

var nodeLabelVocab = []struct {
	k  string
	vs []string
}{
	{"zone", []string{"a", "b"}},
	{"pool", []string{"x", "y"}},
	{"canary", []string{"yes"}},
	{"exclude", []string{"foo"}},
	{"big", []string{"1"}},
	{"role/worker", []string{"", "", "false"}}, // a marker label: present with an empty value (or, oddly, "false")
}

var taintVocab = []string{
	"dedicated:NoSchedule",
	"evict:NoExecute",
	"soft:PreferNoSchedule",
	"node.kubernetes.io/unschedulable:NoSchedule",
	"node.kubernetes.io/not-ready:NoExecute",
	"node.kubernetes.io/memory-pressure:NoSchedule",
}

func genNode(r *rand.Rand, name string, plain float64) *NodeDef {
	n := &NodeDef{Name: name, Labels: map[string]string{}}
	for _, lv := range nodeLabelVocab {
		p := 0.6
		if lv.k == "canary" || lv.k == "exclude" || lv.k == "big" || lv.k == "role/worker" {
			p = 0.3
		}
		if chance(r, p) {
			n.Labels[lv.k] = pick(r, lv.vs...)
		}
	}
	if !chance(r, plain) {
		for _, t := range taintVocab {
			if chance(r, 0.2) {
				n.Taints = append(n.Taints, t)
			}
		}
	}
	return n
}

func genTemplate(r *rand.Rand, letter string, fancy float64) *TemplateDef {
	t := &TemplateDef{Letter: letter}
	if chance(r, fancy) {
		switch r.IntN(4) {
		case 0:
			t.NodeSelector = map[string]string{"zone": "a"}
		case 1:
			t.NodeSelector = map[string]string{"pool": "x"}
		case 2:
			t.NodeSelector = map[string]string{"role/worker": ""} // selects the nodes that carry the marker, not those without it
		}
	}
	if chance(r, fancy) {
		t.AffinityKind = pick(r, "zoneA", "notPoolY", "hasZone", "noExclude", "two-terms", "preferred-only", "nameNotN1", "hasZoneNotN1")
	}
	if chance(r, fancy) {
		t.Tolerate = []string{pick(r, "dedicated", "evict", "*", "timed")}
	}
	if chance(r, fancy*0.6) {
		t.Side = true
	}
	if chance(r, fancy*0.6) {
		t.Cpu = pick(r, "100m", "200m")
	}
	return t
}

// sameShape copies the placement-relevant fields so that letters differ only by image.
func (t *TemplateDef) withLetter(l string) *TemplateDef {
	c := *t
	c.Letter = l
	return &c
}

func sortedKeys[V any](m map[string]V) []string {
	ks := make([]string, 0, len(m))
	for k := range m {
		ks = append(ks, k)
	}
	sort.Strings(ks)
	return ks
}

func nodeName(i int) string { return fmt.Sprintf("n%02d", i) }
