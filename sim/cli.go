package sim

import (
	"fmt"
	"io"

	"k8s.io/apimachinery/pkg/types"
	"sigs.k8s.io/controller-runtime/pkg/client"

	"github.com/DataDog/extendeddaemonset/pkg/plugin/canary"
	"github.com/DataDog/extendeddaemonset/pkg/plugin/freeze"
	"github.com/DataDog/extendeddaemonset/pkg/plugin/pause"
)

// runCLI runs the real body of a kubectl-eds command against the given client.
func runCLI(cmd string, c client.Client, key types.NamespacedName) error {
	out := io.Discard
	switch cmd {
	case "canary-pause":
		return canary.VerifRunPause(c, key.Namespace, key.Name, true, out)
	case "canary-unpause":
		return canary.VerifRunPause(c, key.Namespace, key.Name, false, out)
	case "canary-validate":
		return canary.VerifRunValidate(c, key.Namespace, key.Name, out)
	case "canary-fail":
		return canary.VerifRunFail(c, key.Namespace, key.Name, out)
	case "ru-pause":
		return pause.VerifRunRollingUpdatePause(c, key.Namespace, key.Name, true, out)
	case "ru-unpause":
		return pause.VerifRunRollingUpdatePause(c, key.Namespace, key.Name, false, out)
	case "freeze":
		return freeze.VerifRunFreeze(c, key.Namespace, key.Name, true, out)
	case "unfreeze":
		return freeze.VerifRunFreeze(c, key.Namespace, key.Name, false, out)
	}
	return fmt.Errorf("unknown cli command %s", cmd)
}
